#!/bin/sh
# record_seed.sh <prop> <k> <change-dir> : copy a confirmed seeded change into /verif/seeded and record what the checks say
P=$1; K=$2; CH=$3
OUT=/verif/seeded/$P-$K
mkdir -p $OUT
cp $CH/patch.diff $OUT/patch.diff
[ -f $CH/demo_test.go ] && cp $CH/demo_test.go $OUT/demo_test.go.txt
[ -f $CH/notes.md ] && cp $CH/notes.md $OUT/notes.md
RES=$(/verif/selftest/run_seed.sh $CH $P 2>&1)
echo "$RES" > $OUT/check_output.txt
python3 - "$P" "$K" "$OUT" <<'PY'
import sys,json,re
p,k,out=sys.argv[1:4]
res=open(out+'/check_output.txt').read()
notes=open(out+'/notes.md').read() if __import__('os').path.exists(out+'/notes.md') else ''
obls=re.findall(r'obligation="([^"]+)"',res)
meta={"property":p,"seed":f"{p}-{k}","source":"independent sub-agent given only the property text and a scratch worktree (no access to /verif)",
 "confirmed":{"applies":"APPLY: ok" in res,"existing_suite_passes_with_change":"SUITE-WITH-CHANGE: pass" in res,"demo_fails_with_change":"DEMO-WITH-CHANGE: fails" in res,"demo_passes_on_pristine":"DEMO-PRISTINE: passes" in res},
 "needs_to_manifest":notes[:1500],
 "what_i_ran":f"/verif/selftest/run_seed.sh <change-dir> {p}  (scratch copy under /tmp, removed afterwards)",
 "detected":len(obls)>0,"failing_obligations":obls[:12]}
json.dump(meta,open(out+'/meta.json','w'),indent=1)
print(p,k,"detected" if obls else "MISSED",obls[:2])
PY

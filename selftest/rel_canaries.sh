#!/bin/bash
# rel_canaries.sh : must-fail corpus for mode R (vcgen/rel.go). Each line is a one-line mutation of
# /repo that removes case folding at one site; the C10 / C11 check must report a violation for every
# one of them. Run after any change to rel.go, the relational contracts or the solver set-up.
# Works on scratch copies under /tmp (removed afterwards); /repo is not touched.
set -u
export GOFLAGS=-mod=mod GOPROXY=off GOSUMDB=off GOTOOLCHAIN=local
run() { # name file sed-expr prop
  local d=/tmp/vf-relcan-$1; rm -rf $d; mkdir -p $d; cp /repo/*.go /repo/go.mod $d/; cp -r /repo/tests $d/
  sed -i "$3" $d/$2
  if diff -q $d/$2 /repo/$2 >/dev/null; then echo "$1: edit did not apply (source moved?)"; rm -rf $d; return; fi
  n=$(/verif/bin/vcgen -repo $d -out $d/out check $4 quick 2>&1 | grep -c "^VIOLATION")
  if [ "$n" -gt 0 ]; then echo "$1: reported ($n violations)"; else echo "$1: MISSED"; fi
  rm -rf $d
}
run hexX      sqli_parse.go   "s/s.input\[s.pos+1\] == 'X' || s.input\[s.pos+1\] == 'x'/s.input[s.pos+1] == 'x'/" C10
run unaryNOT  sqli_token.go   's/toUpperCmp("NOT", t.val\[:3\])/t.val[:3] == "NOT"/' C10
run foldIN    sqli.go         's/(toUpperCmp("IN", s.tokenVec\[left\].val\[:s.tokenVec\[left\].len\]) ||/("IN" == s.tokenVec[left].val[:s.tokenVec[left].len] ||/' C10
run decoderX  xss_helpers.go  "s/s\[2\] == 'x' || s\[2\] == 'X'/s[2] == 'x'/" C11
run ieIF      xss.go          's/strings.ToUpper(h5.tokenStart\[1:3\]) == "IF"/h5.tokenStart[1:3] == "IF"/' C11

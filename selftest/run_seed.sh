#!/bin/sh
# run_seed.sh <change-dir containing patch.diff [demo_test.go]> <prop>...
# Confirms the seeded change on a scratch copy (outside /repo and /verif): applies, builds,
# existing tests pass, demo fails with it / passes without it; then runs the given checks on it.
set -u
export GOFLAGS=-mod=mod GOPROXY=off GOSUMDB=off GOTOOLCHAIN=local
CH=$1; shift
D=$(mktemp -d /tmp/vf-seed-XXXX)
mkdir -p "$D/src" "$D/pristine"
for t in src pristine; do cp /repo/*.go /repo/go.mod "$D/$t"/ && cp -r /repo/tests "$D/$t"/; done
(cd "$D/src" && patch -p1 -s < "$CH/patch.diff") || { echo "APPLY: FAIL"; rm -rf "$D"; exit 2; }
echo "APPLY: ok"
(cd "$D/src" && go build ./... 2>&1 | head -3 && go vet -tags verif . >/dev/null 2>&1; go test -count=1 . >/dev/null 2>&1) && echo "SUITE-WITH-CHANGE: pass" || echo "SUITE-WITH-CHANGE: FAIL"
if [ -f "$CH/demo_test.go" ]; then
  cp "$CH/demo_test.go" "$D/src/zz_seeded_demo_test.go"; cp "$CH/demo_test.go" "$D/pristine/zz_seeded_demo_test.go"
  (cd "$D/src" && timeout 300 go test -count=1 -run 'TestSeeded' . >/dev/null 2>&1) && echo "DEMO-WITH-CHANGE: passes (BAD)" || echo "DEMO-WITH-CHANGE: fails (good)"
  (cd "$D/pristine" && timeout 300 go test -count=1 -run 'TestSeeded' . >/dev/null 2>&1) && echo "DEMO-PRISTINE: passes (good)" || echo "DEMO-PRISTINE: FAILS (BAD)"
  rm -f "$D/src/zz_seeded_demo_test.go"
fi
for p in "$@"; do
  /verif/bin/vcgen -repo "$D/src" -out "$D/out" check "$p" quick 2>&1 | grep -E "VIOLATION|KNOWN|^property " | cut -c1-600 | head -40
done
rm -rf "$D"

#!/bin/sh
# mutate.sh <python-edit-file> <prop>... : copy /repo to a scratch dir, apply the edit (a python
# snippet operating in that dir), check it compiles and passes the tests, run the checks.
set -u
export GOFLAGS=-mod=mod GOPROXY=off GOSUMDB=off GOTOOLCHAIN=local
D=$(mktemp -d /tmp/vf-mut-XXXX)
cp /repo/*.go /repo/go.mod "$D"/ && cp -r /repo/tests "$D"/
EDIT=$1; shift
(cd "$D" && python3 "$EDIT") || { echo "edit failed"; rm -rf "$D"; exit 2; }
(cd "$D" && go build ./... && go test -count=1 . >/dev/null 2>&1) && echo "TESTS: pass" || echo "TESTS: FAIL"
for p in "$@"; do
  /verif/bin/vcgen -repo "$D" -out "$D/out" check "$p" quick | grep -E "VIOLATION|KNOWN|property " | cut -c1-260
done
rm -rf "$D"

package main

// A tiny linear normaliser over SMT integer terms kept as strings. It flattens nested
// (+ ...), (- a b ...), (- a) and integer literals, cancels syntactically equal atoms and
// re-emits a canonical sum. Everything else is an atom. Used so that `off + (j - off)` is the
// bare variable `j`, which keeps quantifier patterns of the form (select A j).

import (
	"sort"
	"strconv"
	"strings"
)

func splitSexp(s string) []string {
	// s is the inside of a parenthesised list
	var out []string
	d := 0
	start := -1
	for i := 0; i < len(s); i++ {
		c := s[i]
		switch {
		case c == '(':
			if d == 0 && start < 0 {
				start = i
			}
			d++
		case c == ')':
			d--
			if d == 0 {
				out = append(out, s[start:i+1])
				start = -1
			}
		case c == ' ' || c == '\n' || c == '\t':
			if d == 0 && start >= 0 {
				out = append(out, s[start:i])
				start = -1
			}
		default:
			if d == 0 && start < 0 {
				start = i
			}
		}
	}
	if start >= 0 {
		out = append(out, s[start:])
	}
	return out
}

func linCollect(t string, sign int64, atoms map[string]int64, konst *int64) {
	t = strings.TrimSpace(t)
	if n, err := strconv.ParseInt(t, 10, 64); err == nil {
		*konst += sign * n
		return
	}
	if strings.HasPrefix(t, "(+ ") && strings.HasSuffix(t, ")") {
		for _, p := range splitSexp(t[3 : len(t)-1]) {
			linCollect(p, sign, atoms, konst)
		}
		return
	}
	if strings.HasPrefix(t, "(- ") && strings.HasSuffix(t, ")") {
		parts := splitSexp(t[3 : len(t)-1])
		if len(parts) == 1 {
			linCollect(parts[0], -sign, atoms, konst)
			return
		}
		linCollect(parts[0], sign, atoms, konst)
		for _, p := range parts[1:] {
			linCollect(p, -sign, atoms, konst)
		}
		return
	}
	if strings.HasPrefix(t, "(* ") && strings.HasSuffix(t, ")") {
		parts := splitSexp(t[3 : len(t)-1])
		if len(parts) == 2 {
			if n, err := strconv.ParseInt(parts[0], 10, 64); err == nil {
				sub := map[string]int64{}
				var k int64
				linCollect(parts[1], 1, sub, &k)
				*konst += sign * n * k
				for a, c := range sub {
					atoms[a] += sign * n * c
				}
				return
			}
		}
	}
	atoms[t] += sign
}

func linNorm(t string) string {
	atoms := map[string]int64{}
	var k int64
	linCollect(t, 1, atoms, &k)
	var keys []string
	for a, c := range atoms {
		if c != 0 {
			keys = append(keys, a)
		}
	}
	sort.Strings(keys)
	var pos, neg []string
	for _, a := range keys {
		c := atoms[a]
		switch {
		case c == 1:
			pos = append(pos, a)
		case c == -1:
			neg = append(neg, a)
		case c > 1:
			pos = append(pos, "(* "+strconv.FormatInt(c, 10)+" "+a+")")
		default:
			neg = append(neg, "(* "+strconv.FormatInt(-c, 10)+" "+a+")")
		}
	}
	if k > 0 {
		pos = append(pos, strconv.FormatInt(k, 10))
	} else if k < 0 {
		neg = append(neg, strconv.FormatInt(-k, 10))
	}
	var p string
	switch len(pos) {
	case 0:
		if len(neg) == 0 {
			return "0"
		}
		p = "0"
	case 1:
		p = pos[0]
	default:
		p = "(+ " + strings.Join(pos, " ") + ")"
	}
	if len(neg) == 0 {
		return p
	}
	if p == "0" && len(neg) == 1 {
		return "(- " + neg[0] + ")"
	}
	return "(- " + p + " " + strings.Join(neg, " ") + ")"
}

func lAdd(a, b string) string { return linNorm("(+ " + a + " " + b + ")") }
func lSub(a, b string) string { return linNorm("(- " + a + " " + b + ")") }

package main

// Contract language: parsing of the //@ blocks in /repo/verif_contracts.go.
//
//   //@ spec name(p type, ...) type = expr
//   //@ func <qualified name>
//   //@   requires [tags] @label expr
//   //@   ensures  [tags] @label expr
//   //@   modifies loc, loc, ...
//   //@   loop N invariant [tags] @label expr
//   //@   loop N decreases e1, e2, ...
//   //@   rank expr
//   //@   inline
//
// Expressions: Go-like, plus ==>, <==>, c ? a : b, forall/exists i in [a,b): e,
// let x = e in e, old(e), result / result0 / result1.

import (
	"fmt"
	"os"
	"strconv"
	"strings"
)

type Expr interface{}

type (
	EInt   struct{ V int64 }
	EBool  struct{ V bool }
	EStr   struct{ V string } // byte string literal
	EIdent struct{ Name string }
	EField struct {
		X    Expr
		Name string
	}
	EIndex struct{ X, I Expr }
	ESlice struct{ X, Lo, Hi Expr } // Lo/Hi may be nil
	ECall  struct {
		Fn   string
		Args []Expr
	}
	EUn struct {
		Op string
		X  Expr
	}
	EBin struct {
		Op   string
		X, Y Expr
	}
	ECond  struct{ C, A, B Expr }
	EQuant struct {
		Forall bool
		Var    string
		Lo, Hi Expr // var in [Lo,Hi)
		Body   Expr
	}
	ELet struct {
		Var  string
		Val  Expr
		Body Expr
	}
	EOld struct{ X Expr }
)

type Clause struct {
	Kind  string // requires ensures invariant decreases rank modifies assert
	Tags  []string
	Label string
	E     Expr
	Es    []Expr // decreases tuple
	Mods  []ModItem
	Loop  int
	Line  int
	Text  string
}

type ModItem struct {
	Base  Expr   // evaluates to a struct reference
	All8  bool   // base is s.tokenVec[*]
	Field string // "*" for all fields
}

type SpecParam struct{ Name, Type string }

type Spec struct {
	Name   string
	Params []SpecParam
	Ret    string
	Body   Expr
	Rec    bool // recursive: declared uninterpreted, unfolded only by explicit hints
	Opaque bool // an uninterpreted symbol unless revealed (reveal clause) in the function under verification
}

type Ufun struct {
	Name   string
	Params []string
	Ret    string
}

type FuncContract struct {
	Defines  []*Clause
	Justify  string
	Name     string
	Requires []*Clause
	Ensures  []*Clause
	Modifies []ModItem
	HasMod   bool
	Loops    map[int]*LoopContract
	Rank     Expr
	Inline   bool
	Trusted  bool // never allowed inside the package; scanned
	Cost     Expr
	Line     int
	Lemmas   []*Clause
	Unfold   []Expr // function-level unfold hints (applied at entry and at every return)
	Reveal   []Expr // applications of opaque specs whose definition is assumed at entry
	// mode R
	Rel         bool
	RelModes    map[string]string
	RelRequires []*Clause
	RelEnsures  []*Clause
}

type LoopContract struct {
	Steps      []*Clause // must hold at every back edge (the iteration did not leave the loop)
	Invariants []*Clause
	Decreases  []Expr
	DecClause  *Clause
	Unfold     []Expr
	RelInvariants []*Clause
}

type Contracts struct {
	Ufuns map[string]*Ufun
	Specs map[string]*Spec
	Funcs map[string]*FuncContract
	Order []string
	// global lemmas / ground facts
	Lemmas []*Clause
	RelFields map[string]string // "S.f" -> eq | upeq | skip
	RelFieldSpec map[string]string // "S.f" -> two-argument spec that must hold of (A value, B value) in addition
}

// ---------------------------------------------------------------- lexer

type tok struct {
	k string // ident int str char op eof
	s string
	n int64
}

type lexer struct {
	src  string
	pos  int
	toks []tok
}

func lexAll(src string) ([]tok, error) {
	var out []tok
	i := 0
	for i < len(src) {
		c := src[i]
		switch {
		case c == ' ' || c == '\t' || c == '\n' || c == '\r':
			i++
		case c >= '0' && c <= '9':
			j := i
			if c == '0' && i+1 < len(src) && (src[i+1] == 'x' || src[i+1] == 'X') {
				j = i + 2
				for j < len(src) && strings.IndexByte("0123456789abcdefABCDEF", src[j]) >= 0 {
					j++
				}
			} else {
				for j < len(src) && src[j] >= '0' && src[j] <= '9' {
					j++
				}
			}
			v, err := strconv.ParseInt(src[i:j], 0, 64)
			if err != nil {
				return nil, err
			}
			out = append(out, tok{k: "int", n: v, s: src[i:j]})
			i = j
		case c == '_' || c == '$' || (c >= 'a' && c <= 'z') || (c >= 'A' && c <= 'Z'):
			j := i
			for j < len(src) && (src[j] == '_' || src[j] == '$' || (src[j] >= 'a' && src[j] <= 'z') || (src[j] >= 'A' && src[j] <= 'Z') || (src[j] >= '0' && src[j] <= '9')) {
				j++
			}
			out = append(out, tok{k: "ident", s: src[i:j]})
			i = j
		case c == '\'':
			// char literal
			j := i + 1
			for j < len(src) && src[j] != '\'' {
				if src[j] == '\\' {
					j++
				}
				j++
			}
			if j >= len(src) {
				return nil, fmt.Errorf("unterminated char literal")
			}
			r, _, _, err := strconv.UnquoteChar(src[i+1:j], '\'')
			if err != nil {
				return nil, fmt.Errorf("bad char literal %s: %v", src[i:j+1], err)
			}
			out = append(out, tok{k: "int", n: int64(r), s: src[i : j+1]})
			i = j + 1
		case c == '"':
			j := i + 1
			for j < len(src) && src[j] != '"' {
				if src[j] == '\\' {
					j++
				}
				j++
			}
			if j >= len(src) {
				return nil, fmt.Errorf("unterminated string literal")
			}
			s, err := strconv.Unquote(src[i : j+1])
			if err != nil {
				return nil, fmt.Errorf("bad string literal %s: %v", src[i:j+1], err)
			}
			out = append(out, tok{k: "str", s: s})
			i = j + 1
		default:
			ops := []string{"<==>", "==>", "&&", "||", "==", "!=", "<=", ">=", "<", ">", "+", "-", "*", "/", "%", "!", "(", ")", "[", "]", ".", ",", ":", "?", "&", "=", "@", "{", "}"}
			matched := false
			for _, op := range ops {
				if strings.HasPrefix(src[i:], op) {
					out = append(out, tok{k: "op", s: op})
					i += len(op)
					matched = true
					break
				}
			}
			if !matched {
				return nil, fmt.Errorf("unexpected character %q", c)
			}
		}
	}
	out = append(out, tok{k: "eof"})
	return out, nil
}

// ---------------------------------------------------------------- parser

type parser struct {
	toks []tok
	p    int
}

func (p *parser) peek() tok { return p.toks[p.p] }
func (p *parser) next() tok { t := p.toks[p.p]; p.p++; return t }
func (p *parser) isOp(s string) bool {
	t := p.peek()
	return t.k == "op" && t.s == s
}
func (p *parser) isIdent(s string) bool {
	t := p.peek()
	return t.k == "ident" && t.s == s
}
func (p *parser) expectOp(s string) {
	if !p.isOp(s) {
		panic(fmt.Sprintf("expected %q, got %q", s, p.peek().s))
	}
	p.next()
}
func (p *parser) expectIdent(s string) {
	if !p.isIdent(s) {
		panic(fmt.Sprintf("expected %q, got %q", s, p.peek().s))
	}
	p.next()
}

// lowest precedence entry
func (p *parser) expr() Expr {
	if p.isIdent("forall") || p.isIdent("exists") {
		fa := p.next().s == "forall"
		v := p.next()
		if v.k != "ident" {
			panic("quantifier variable expected")
		}
		p.expectIdent("in")
		p.expectOp("[")
		lo := p.expr()
		p.expectOp(",")
		hi := p.expr()
		p.expectOp(")")
		p.expectOp(":")
		body := p.expr()
		return &EQuant{Forall: fa, Var: v.s, Lo: lo, Hi: hi, Body: body}
	}
	if p.isIdent("let") {
		p.next()
		v := p.next()
		p.expectOp("=")
		val := p.exprNoIn()
		p.expectIdent("in")
		body := p.expr()
		return &ELet{Var: v.s, Val: val, Body: body}
	}
	return p.iff()
}

func (p *parser) exprNoIn() Expr { return p.iff() }

func (p *parser) iff() Expr {
	x := p.implies()
	for p.isOp("<==>") {
		p.next()
		y := p.implies()
		x = &EBin{Op: "<==>", X: x, Y: y}
	}
	return x
}

func (p *parser) implies() Expr {
	x := p.cond()
	if p.isOp("==>") {
		p.next()
		// right assoc; the consequent may itself be a quantifier / let
		var y Expr
		if p.isIdent("forall") || p.isIdent("exists") || p.isIdent("let") {
			y = p.expr()
		} else {
			y = p.implies()
		}
		return &EBin{Op: "==>", X: x, Y: y}
	}
	return x
}

func (p *parser) cond() Expr {
	c := p.or()
	if p.isOp("?") {
		p.next()
		a := p.cond()
		p.expectOp(":")
		b := p.cond()
		return &ECond{C: c, A: a, B: b}
	}
	return c
}

func (p *parser) or() Expr {
	x := p.and()
	for p.isOp("||") {
		p.next()
		y := p.and()
		x = &EBin{Op: "||", X: x, Y: y}
	}
	return x
}

func (p *parser) and() Expr {
	x := p.cmp()
	for p.isOp("&&") {
		p.next()
		var y Expr
		if p.isIdent("forall") || p.isIdent("exists") || p.isIdent("let") {
			y = p.expr()
		} else {
			y = p.cmp()
		}
		x = &EBin{Op: "&&", X: x, Y: y}
	}
	return x
}

func (p *parser) cmp() Expr {
	x := p.add()
	for {
		t := p.peek()
		if t.k == "op" && (t.s == "==" || t.s == "!=" || t.s == "<" || t.s == "<=" || t.s == ">" || t.s == ">=") {
			p.next()
			y := p.add()
			x = &EBin{Op: t.s, X: x, Y: y}
			continue
		}
		if t.k == "ident" && t.s == "in" && p.toks[p.p+1].k == "op" && p.toks[p.p+1].s == "{" {
			// x in {a, b, c}
			p.next()
			p.next()
			var alts Expr
			for {
				e := p.add()
				eq := &EBin{Op: "==", X: x, Y: e}
				if alts == nil {
					alts = eq
				} else {
					alts = &EBin{Op: "||", X: alts, Y: eq}
				}
				if p.isOp(",") {
					p.next()
					continue
				}
				break
			}
			p.expectOp("}")
			x = alts
			continue
		}
		return x
	}
}

func (p *parser) add() Expr {
	x := p.mul()
	for p.isOp("+") || p.isOp("-") {
		op := p.next().s
		y := p.mul()
		x = &EBin{Op: op, X: x, Y: y}
	}
	return x
}

func (p *parser) mul() Expr {
	x := p.unary()
	for p.isOp("*") || p.isOp("/") || p.isOp("%") || p.isOp("&") {
		op := p.next().s
		y := p.unary()
		x = &EBin{Op: op, X: x, Y: y}
	}
	return x
}

func (p *parser) unary() Expr {
	if p.isOp("!") {
		p.next()
		return &EUn{Op: "!", X: p.unary()}
	}
	if p.isOp("-") {
		p.next()
		return &EUn{Op: "-", X: p.unary()}
	}
	return p.postfix()
}

func (p *parser) postfix() Expr {
	x := p.primary()
	for {
		switch {
		case p.isOp("."):
			p.next()
			t := p.next()
			if t.k != "ident" {
				panic("field name expected")
			}
			x = &EField{X: x, Name: t.s}
		case p.isOp("["):
			p.next()
			var lo, hi Expr
			if p.isOp(":") {
				p.next()
				if !p.isOp("]") {
					hi = p.expr()
				}
				p.expectOp("]")
				x = &ESlice{X: x, Lo: nil, Hi: hi}
				continue
			}
			lo = p.expr()
			if p.isOp(":") {
				p.next()
				if !p.isOp("]") {
					hi = p.expr()
				}
				p.expectOp("]")
				x = &ESlice{X: x, Lo: lo, Hi: hi}
				continue
			}
			p.expectOp("]")
			x = &EIndex{X: x, I: lo}
		default:
			return x
		}
	}
}

func (p *parser) primary() Expr {
	t := p.next()
	switch t.k {
	case "int":
		return &EInt{V: t.n}
	case "str":
		return &EStr{V: t.s}
	case "ident":
		switch t.s {
		case "true":
			return &EBool{V: true}
		case "false":
			return &EBool{V: false}
		case "old":
			p.expectOp("(")
			e := p.expr()
			p.expectOp(")")
			return &EOld{X: e}
		}
		if p.isOp("(") {
			p.next()
			var args []Expr
			for !p.isOp(")") {
				args = append(args, p.expr())
				if p.isOp(",") {
					p.next()
				}
			}
			p.expectOp(")")
			return &ECall{Fn: t.s, Args: args}
		}
		return &EIdent{Name: t.s}
	case "op":
		if t.s == "(" {
			e := p.expr()
			p.expectOp(")")
			return e
		}
	}
	panic(fmt.Sprintf("unexpected token %q", t.s))
}

func parseExprString(s string) (e Expr, err error) {
	toks, err := lexAll(s)
	if err != nil {
		return nil, err
	}
	p := &parser{toks: toks}
	defer func() {
		if r := recover(); r != nil {
			err = fmt.Errorf("%v (near token %d of %q)", r, p.p, s)
		}
	}()
	e = p.expr()
	if p.peek().k != "eof" {
		return nil, fmt.Errorf("trailing input %q in %q", p.peek().s, s)
	}
	return e, nil
}

// parse "[C01 C16] @label rest" prefix
func parseTagsLabel(s string) (tags []string, label string, rest string) {
	s = strings.TrimSpace(s)
	if strings.HasPrefix(s, "[") {
		j := strings.IndexByte(s, ']')
		if j > 0 {
			for _, t := range strings.FieldsFunc(s[1:j], func(r rune) bool { return r == ' ' || r == ',' }) {
				tags = append(tags, t)
			}
			s = strings.TrimSpace(s[j+1:])
		}
	}
	if strings.HasPrefix(s, "@") {
		j := strings.IndexAny(s, " \t")
		if j < 0 {
			j = len(s)
		}
		label = s[1:j]
		s = strings.TrimSpace(s[j:])
	}
	return tags, label, s
}

func splitTopLevel(s string, sep byte) []string {
	var out []string
	depth := 0
	last := 0
	inStr := byte(0)
	for i := 0; i < len(s); i++ {
		c := s[i]
		if inStr != 0 {
			if c == '\\' {
				i++
			} else if c == inStr {
				inStr = 0
			}
			continue
		}
		switch c {
		case '"', '\'':
			inStr = c
		case '(', '[', '{':
			depth++
		case ')', ']', '}':
			depth--
		default:
			if c == sep && depth == 0 {
				out = append(out, strings.TrimSpace(s[last:i]))
				last = i + 1
			}
		}
	}
	out = append(out, strings.TrimSpace(s[last:]))
	return out
}

func parseModItem(s string) (ModItem, error) {
	// forms: base.field | base.* | base.tokenVec[*].field | base.tokenVec[*].*
	s = strings.TrimSpace(s)
	j := strings.LastIndexByte(s, '.')
	if j < 0 {
		return ModItem{}, fmt.Errorf("modifies item %q: need base.field", s)
	}
	field := strings.TrimSpace(s[j+1:])
	base := strings.TrimSpace(s[:j])
	mi := ModItem{Field: field}
	if strings.HasSuffix(base, "[*]") {
		mi.All8 = true
		base = strings.TrimSuffix(base, "[*]")
		// base is now e.g. s.tokenVec ; strip .tokenVec
		k := strings.LastIndexByte(base, '.')
		base = base[:k]
	}
	e, err := parseExprString(base)
	if err != nil {
		return ModItem{}, err
	}
	mi.Base = e
	return mi, nil
}

var clauseKeywords = map[string]bool{"reveal": true, "unfold": true, "defines": true, "justify": true, "requires": true, "ensures": true, "modifies": true, "loop": true, "rank": true, "inline": true, "cost": true, "lemma": true, "trusted": true, "rel": true}

func loadContracts(path string) (*Contracts, error) {
	data, err := os.ReadFile(path)
	if err != nil {
		return nil, err
	}
	cs := &Contracts{Specs: map[string]*Spec{}, Funcs: map[string]*FuncContract{}, Ufuns: map[string]*Ufun{}, RelFields: map[string]string{}, RelFieldSpec: map[string]string{}}
	type rawClause struct {
		text string
		line int
	}
	var raws []rawClause
	for i, line := range strings.Split(string(data), "\n") {
		t := strings.TrimSpace(line)
		if !strings.HasPrefix(t, "//@") {
			continue
		}
		body := strings.TrimPrefix(t, "//@")
		// strip trailing comment " // ..." (only when preceded by two spaces, to keep '/' chars in exprs safe)
		if k := strings.Index(body, "  // "); k >= 0 {
			body = body[:k]
		}
		bt := strings.TrimSpace(body)
		if bt == "" {
			continue
		}
		first := bt
		if k := strings.IndexAny(bt, " \t"); k >= 0 {
			first = bt[:k]
		}
		if first == "spec" || first == "specrec" || first == "specopaque" || first == "func" || first == "axiom" || first == "ufun" || first == "relfield" || clauseKeywords[first] {
			raws = append(raws, rawClause{bt, i + 1})
		} else {
			if len(raws) == 0 {
				return nil, fmt.Errorf("line %d: continuation without clause", i+1)
			}
			raws[len(raws)-1].text += " " + bt
		}
	}
	var cur *FuncContract
	for _, rc := range raws {
		bt := rc.text
		first := bt
		rest := ""
		if k := strings.IndexAny(bt, " \t"); k >= 0 {
			first = bt[:k]
			rest = strings.TrimSpace(bt[k:])
		}
		fail := func(err error) error { return fmt.Errorf("contracts line %d: %v", rc.line, err) }
		switch first {
		case "spec", "specrec", "specopaque":
			// name(params) type = expr
			k := strings.IndexByte(rest, '(')
			name := strings.TrimSpace(rest[:k])
			// find matching paren
			depth := 0
			e := k
			for ; e < len(rest); e++ {
				if rest[e] == '(' {
					depth++
				} else if rest[e] == ')' {
					depth--
					if depth == 0 {
						break
					}
				}
			}
			ps := rest[k+1 : e]
			after := strings.TrimSpace(rest[e+1:])
			eq := strings.Index(after, "=")
			ret := strings.TrimSpace(after[:eq])
			bodyS := strings.TrimSpace(after[eq+1:])
			sp := &Spec{Name: name, Ret: ret, Rec: first == "specrec", Opaque: first == "specopaque"}
			if strings.TrimSpace(ps) != "" {
				for _, p := range strings.Split(ps, ",") {
					f := strings.Fields(p)
					if len(f) != 2 {
						return nil, fail(fmt.Errorf("bad spec param %q", p))
					}
					sp.Params = append(sp.Params, SpecParam{f[0], f[1]})
				}
			}
			ex, err := parseExprString(bodyS)
			if err != nil {
				return nil, fail(err)
			}
			sp.Body = ex
			cs.Specs[name] = sp
			cur = nil
		case "ufun":
			// NAME(type, type) ret
			k := strings.IndexByte(rest, '(')
			e := strings.LastIndexByte(rest, ')')
			if k < 0 || e < k {
				return nil, fail(fmt.Errorf("bad ufun declaration"))
			}
			u := &Ufun{Name: strings.TrimSpace(rest[:k]), Ret: strings.TrimSpace(rest[e+1:])}
			for _, p := range strings.Split(rest[k+1:e], ",") {
				if t := strings.TrimSpace(p); t != "" {
					u.Params = append(u.Params, t)
				}
			}
			cs.Ufuns[u.Name] = u
			cur = nil
		case "func":
			cur = &FuncContract{Name: rest, Loops: map[int]*LoopContract{}, Line: rc.line}
			if _, dup := cs.Funcs[rest]; dup {
				return nil, fail(fmt.Errorf("duplicate func block %s", rest))
			}
			cs.Funcs[rest] = cur
			cs.Order = append(cs.Order, rest)
		case "relfield":
			f := strings.Fields(rest)
			if len(f) < 2 || len(f) > 3 || !(f[1] == "eq" || f[1] == "upeq" || f[1] == "skip") {
				return nil, fail(fmt.Errorf("relfield S.f eq|upeq|skip [spec]"))
			}
			cs.RelFields[f[0]] = f[1]
			if len(f) == 3 {
				cs.RelFieldSpec[f[0]] = f[2]
			}
			cur = nil
		case "axiom":
			return nil, fail(fmt.Errorf("axiom clauses are not allowed"))
		default:
			if cur == nil {
				return nil, fail(fmt.Errorf("clause outside func block"))
			}
			switch first {
			case "rel":
				// rel on | rel upeq a, b | rel eq a | rel skip a | rel requires E | rel ensures E
				cur.Rel = true
				if cur.RelModes == nil {
					cur.RelModes = map[string]string{}
				}
				kw := rest
				body := ""
				if k := strings.IndexAny(rest, " \t"); k >= 0 {
					kw = rest[:k]
					body = strings.TrimSpace(rest[k:])
				}
				switch kw {
				case "on":
				case "upeq", "eq", "skip":
					for _, n := range strings.Split(body, ",") {
						if n = strings.TrimSpace(n); n != "" {
							cur.RelModes[n] = kw
						}
					}
				case "requires", "ensures":
					tags, label, ex := parseTagsLabel(body)
					e, err := parseExprString(ex)
					if err != nil {
						return nil, fail(err)
					}
					cl := &Clause{Kind: "rel " + kw, Tags: tags, Label: label, E: e, Line: rc.line, Text: ex}
					if kw == "requires" {
						cur.RelRequires = append(cur.RelRequires, cl)
					} else {
						cur.RelEnsures = append(cur.RelEnsures, cl)
					}
				default:
					return nil, fail(fmt.Errorf("unknown rel clause %q", kw))
				}
			case "inline":
				cur.Inline = true
			case "trusted":
				cur.Trusted = true
			case "unfold":
				e, err := parseExprString(rest)
				if err != nil {
					return nil, fail(err)
				}
				cur.Unfold = append(cur.Unfold, e)
			case "reveal":
				e, err := parseExprString(rest)
				if err != nil {
					return nil, fail(err)
				}
				cur.Reveal = append(cur.Reveal, e)
			case "justify":
				cur.Justify = strings.TrimSpace(rest)
			case "defines":
				tags, label, ex := parseTagsLabel(rest)
				e, err := parseExprString(ex)
				if err != nil {
					return nil, fail(err)
				}
				cur.Defines = append(cur.Defines, &Clause{Kind: "defines", Tags: tags, Label: label, E: e, Line: rc.line, Text: ex})
			case "requires", "ensures":
				tags, label, ex := parseTagsLabel(rest)
				e, err := parseExprString(ex)
				if err != nil {
					return nil, fail(err)
				}
				c := &Clause{Kind: first, Tags: tags, Label: label, E: e, Line: rc.line, Text: ex}
				if first == "requires" {
					cur.Requires = append(cur.Requires, c)
				} else {
					cur.Ensures = append(cur.Ensures, c)
				}
			case "modifies":
				cur.HasMod = true
				if strings.TrimSpace(rest) == "nothing" {
					break
				}
				for _, it := range splitTopLevel(rest, ',') {
					mi, err := parseModItem(it)
					if err != nil {
						return nil, fail(err)
					}
					cur.Modifies = append(cur.Modifies, mi)
				}
			case "rank":
				e, err := parseExprString(rest)
				if err != nil {
					return nil, fail(err)
				}
				cur.Rank = e
			case "cost":
				rest = strings.TrimSpace(strings.TrimPrefix(strings.TrimSpace(rest), "<="))
				e, err := parseExprString(rest)
				if err != nil {
					return nil, fail(err)
				}
				cur.Cost = e
			case "loop":
				f := strings.Fields(rest)
				if len(f) < 3 {
					return nil, fail(fmt.Errorf("bad loop clause"))
				}
				n, err := strconv.Atoi(f[0])
				if err != nil {
					return nil, fail(err)
				}
				lc := cur.Loops[n]
				if lc == nil {
					lc = &LoopContract{}
					cur.Loops[n] = lc
				}
				kind := f[1]
				k := strings.Index(rest, kind)
				body := strings.TrimSpace(rest[k+len(kind):])
				switch kind {
				case "invariant":
					tags, label, ex := parseTagsLabel(body)
					e, err := parseExprString(ex)
					if err != nil {
						return nil, fail(err)
					}
					lc.Invariants = append(lc.Invariants, &Clause{Kind: "invariant", Tags: tags, Label: label, E: e, Loop: n, Line: rc.line, Text: ex})
				case "step":
					tags, label, ex := parseTagsLabel(body)
					e, err := parseExprString(ex)
					if err != nil {
						return nil, fail(err)
					}
					lc.Steps = append(lc.Steps, &Clause{Kind: "step", Tags: tags, Label: label, E: e, Loop: n, Line: rc.line, Text: ex})
				case "decreases":
					tags, label, ex := parseTagsLabel(body)
					var es []Expr
					for _, part := range splitTopLevel(ex, ',') {
						e, err := parseExprString(part)
						if err != nil {
							return nil, fail(err)
						}
						es = append(es, e)
					}
					lc.Decreases = es
					lc.DecClause = &Clause{Kind: "decreases", Tags: tags, Label: label, Es: es, Loop: n, Line: rc.line, Text: ex}
				case "rel":
					body = strings.TrimSpace(strings.TrimPrefix(body, "invariant"))
					tags, label, ex := parseTagsLabel(body)
					e, err := parseExprString(ex)
					if err != nil {
						return nil, fail(err)
					}
					lc.RelInvariants = append(lc.RelInvariants, &Clause{Kind: "rel invariant", Tags: tags, Label: label, E: e, Loop: n, Line: rc.line, Text: ex})
				case "unfold":
					e, err := parseExprString(body)
					if err != nil {
						return nil, fail(err)
					}
					lc.Unfold = append(lc.Unfold, e)
				default:
					return nil, fail(fmt.Errorf("unknown loop clause %q", kind))
				}
			case "lemma":
				tags, label, ex := parseTagsLabel(rest)
				e, err := parseExprString(ex)
				if err != nil {
					return nil, fail(err)
				}
				cur.Lemmas = append(cur.Lemmas, &Clause{Kind: "lemma", Tags: tags, Label: label, E: e, Line: rc.line, Text: ex})
			}
		}
	}
	return cs, nil
}

package main

// Run-time oracles used only by the replay step (never to prove anything): given the solver's
// candidate input, the injected test evaluates the property on the real code for that input and
// for a small edit neighbourhood of it, and reports the first input on which the property fails.

const oracleSrc = `
func zzSigma(c byte) bool {
	return strings.IndexByte("kUBEtfn1vso&cA(){}.,:;T?XF\\", c) >= 0
}

func zzTokens(in string, flags int) (out [][5]int, vals []string, after []int, stats [3]int) {
	s := new(sqliState)
	sqliInit(s, in, flags)
	for i := 0; i <= len(in)+1; i++ {
		before := s.pos
		if !s.tokenize() {
			after = append(after, s.pos)
			break
		}
		t := s.current
		out = append(out, [5]int{int(t.category), t.pos, t.len, before, s.pos})
		vals = append(vals, t.val)
	}
	stats = [3]int{s.statsTokens, s.statsCommentDDX, s.statsCommentHash}
	return
}

func zzFP(in string, flags int) (fp string, v bool, r bool) {
	s := new(sqliState)
	sqliInit(s, in, flags)
	fp = s.sqliFingerprint(flags)
	v = s.checkFingerprint()
	r = s.reparseAsMySQL()
	return
}

// C16
func zzOracleC16(in string) string {
	for _, fl := range []int{9, 17, 10, 18, 12, 20} {
		toks, vals, after, _ := zzTokens(in, fl)
		prevEnd := 0
		for i, t := range toks {
			cat, pos, ln, before, aft := byte(t[0]), t[1], t[2], t[3], t[4]
			if !zzSigma(cat) {
				return fmt.Sprintf("flags=%d token %d class %q not in alphabet", fl, i, cat)
			}
			if ln > 31 || ln != len(vals[i]) || pos < before || pos+ln > aft || aft <= before || pos < prevEnd || aft > len(in) {
				return fmt.Sprintf("flags=%d token %d pos=%d len=%d before=%d after=%d prevEnd=%d", fl, i, pos, ln, before, aft, prevEnd)
			}
			if pos+ln <= len(in) && in[pos:pos+ln] != vals[i] {
				return fmt.Sprintf("flags=%d token %d value %q != input[%d:%d]=%q", fl, i, vals[i], pos, pos+ln, in[pos:pos+ln])
			}
			prevEnd = pos + ln
		}
		if len(in) > 0 && (len(after) != 1 || after[0] != len(in)) {
			return fmt.Sprintf("flags=%d scan ends at %v, input length %d", fl, after, len(in))
		}
		if len(toks) > len(in) {
			return fmt.Sprintf("flags=%d %d tokens for %d bytes", fl, len(toks), len(in))
		}
	}
	return ""
}

// C08 / C12
func zzCascade(in string) (bool, string) {
	if len(in) == 0 {
		return false, ""
	}
	fp, v, r := zzFP(in, 9)
	if v {
		return true, fp
	}
	if r {
		if fp, v, _ = zzFP(in, 17); v {
			return true, fp
		}
	}
	if strings.IndexByte(in, '\'') >= 0 {
		fp, v, r = zzFP(in, 10)
		if v {
			return true, fp
		}
		if r {
			if fp, v, _ = zzFP(in, 18); v {
				return true, fp
			}
		}
	}
	if strings.IndexByte(in, '"') >= 0 {
		if fp, v, _ = zzFP(in, 20); v {
			return true, fp
		}
	}
	return false, ""
}

func zzOracleC12(in string) string {
	b, f := IsSQLi(in)
	wb, wf := zzCascade(in)
	if b != wb || f != wf {
		return fmt.Sprintf("IsSQLi=(%v,%q) cascade on fresh states=(%v,%q)", b, f, wb, wf)
	}
	return ""
}

func zzOracleC08(in string) string {
	b, f := IsSQLi(in)
	if b != (f != "") {
		return fmt.Sprintf("verdict %v with fingerprint %q", b, f)
	}
	if !b {
		return ""
	}
	if len(f) < 1 || len(f) > 5 {
		return fmt.Sprintf("fingerprint %q length", f)
	}
	for i := 0; i < len(f); i++ {
		if !zzSigma(f[i]) || (f[i] == 'c' && i != len(f)-1) {
			return fmt.Sprintf("fingerprint %q character %d", f, i)
		}
	}
	if sqlKeywords["0"+strings.ToUpper(f)] != 'F' {
		return fmt.Sprintf("fingerprint %q is not a blacklist key", f)
	}
	ok := false
	for _, fl := range []int{9, 17, 10, 18, 20} {
		if fp, _, _ := zzFP(in, fl); fp == f {
			ok = true
		}
	}
	if !ok {
		return fmt.Sprintf("fingerprint %q is the fingerprint of no context", f)
	}
	return ""
}

// C13 / C15
func zzOracleC13(in string) string {
	want := false
	for fl := 0; fl < 5; fl++ {
		want = want || isXSS(in, fl)
	}
	if IsXSS(in) != want {
		return fmt.Sprintf("IsXSS=%v OR-of-contexts=%v", IsXSS(in), want)
	}
	return ""
}

func zzOracleC15(in string) string {
	if !strings.ContainsAny(in, "<=") && IsXSS(in) {
		return "no '<' and no '=' but IsXSS is true"
	}
	return ""
}

// C17 (stream clauses and the simple first-terminator constructs)
func zzH5(in string, fl int) (toks [][3]int) {
	h := new(h5State)
	h.init(in, fl)
	for i := 0; i <= len(in)+3 && h.next(); i++ {
		toks = append(toks, [3]int{h.tokenType, len(h.s) - len(h.tokenStart), h.tokenLen})
	}
	return
}

func zzOracleC17(in string) string {
	for fl := 0; fl < 5; fl++ {
		toks := zzH5(in, fl)
		if len(toks) > len(in)+1 {
			return fmt.Sprintf("ctx=%d %d tokens for %d bytes", fl, len(toks), len(in))
		}
		prev := 0
		for i, t := range toks {
			if t[1] < 0 || t[2] < 0 || t[1]+t[2] > len(in) || t[1] < prev {
				return fmt.Sprintf("ctx=%d token %d type=%d off=%d len=%d prevEnd=%d", fl, i, t[0], t[1], t[2], prev)
			}
			prev = t[1] + t[2]
		}
	}
	type cons struct{ open, term string }
	for _, c := range []cons{{"<%", "%>"}, {"<![CDATA[", "]]>"}, {"<!", ">"}, {"<?", ">"}, {"<!doctype", ">"}} {
		body := in
		if c.open == "<!" && (strings.HasPrefix(body, "--") || strings.HasPrefix(body, "[CDATA[") || (len(body) >= 7 && strings.EqualFold(body[:7], "doctype"))) {
			continue
		}
		toks := zzH5(c.open+body, 0)
		off := len(c.open)
		if c.open == "<!doctype" {
			off = 2
			body = "doctype" + body
		}
		want := strings.Index(body, c.term)
		if want < 0 {
			want = len(body)
		}
		if len(toks) == 0 || toks[0][1] != off || toks[0][2] != want {
			return fmt.Sprintf("construct %q body %q: first token %v, want off=%d len=%d", c.open, body, toks, off, want)
		}
	}
	for _, q := range []byte{'\'', '"', 0x60} {
		toks := zzH5(in, map[byte]int{'\'': 2, '"': 3, 0x60: 4}[q])
		want := strings.IndexByte(in, q)
		if want < 0 {
			want = len(in)
		}
		if len(toks) == 0 || toks[0][1] != 0 || toks[0][2] != want {
			return fmt.Sprintf("quote context %q: first token %v, want off=0 len=%d", q, toks, want)
		}
	}
	return ""
}

// C18: independent first-closing-quote oracle
func zzScan(t string, d byte) (end int, closed bool) {
	i := 0
	for i < len(t) {
		j := strings.IndexByte(t[i:], d)
		if j < 0 {
			return len(t), false
		}
		j += i
		bs := 0
		for k := j - 1; k >= 0 && t[k] == '\\'; k-- {
			bs++
		}
		if bs%2 == 1 {
			i = j + 1
			continue
		}
		if j+1 < len(t) && t[j+1] == d {
			i = j + 2
			continue
		}
		return j, true
	}
	return len(t), false
}

func zzOracleC18(in string) string {
	for _, d := range []byte{'\'', '"'} {
		full := string(d) + in
		s := new(sqliState)
		sqliInit(s, full, 9)
		r := parseString(s)
		e, closed := zzScan(in, d)
		wl := e
		if wl > 31 {
			wl = 31
		}
		wr := len(full)
		wc := byte(0)
		if closed {
			wr, wc = 1+e+1, d
		}
		if s.current.pos != 1 || s.current.len != wl || r != wr || s.current.strClose != wc {
			return fmt.Sprintf("literal %q: pos=%d len=%d close=%d resume=%d, oracle len=%d close=%d resume=%d", full, s.current.pos, s.current.len, s.current.strClose, r, wl, wc, wr)
		}
	}
	return ""
}

// C19: independent decoder oracle
func zzDec(s string) (int, int) {
	if len(s) == 0 {
		return -1, 0
	}
	if s[0] != '&' || len(s) < 3 || s[1] != '#' {
		if s[0] == '&' && len(s) >= 2 && s[1] != '#' {
			return '&', 1
		}
		return int(s[0]), 1
	}
	base, i := 10, 2
	if s[2] == 'x' || s[2] == 'X' {
		base, i = 16, 3
	}
	dig := func(c byte) int {
		switch {
		case c >= '0' && c <= '9':
			return int(c - '0')
		case base == 16 && c >= 'a' && c <= 'f':
			return int(c-'a') + 10
		case base == 16 && c >= 'A' && c <= 'F':
			return int(c-'A') + 10
		}
		return -1
	}
	if i >= len(s) || dig(s[i]) < 0 {
		return '&', 1
	}
	v := 0
	for i < len(s) && dig(s[i]) >= 0 {
		v = v*base + dig(s[i])
		if v > 0x1000FF {
			return '&', 1
		}
		i++
	}
	if i < len(s) && s[i] == ';' {
		i++
	}
	return v, i
}

func zzOracleC19(in string) string {
	for p := 0; p <= len(in); p++ {
		v, c := htmlDecodeByteAt(in[p:])
		wv, wc := zzDec(in[p:])
		if v != wv || c != wc {
			return fmt.Sprintf("decode(%q) = (%d,%d), oracle (%d,%d)", in[p:], v, c, wv, wc)
		}
	}
	return ""
}

// C05: the answer for an input does not depend on what was asked before
func zzOracleC05(in string) string {
	b1, f1 := IsSQLi(in)
	x1 := IsXSS(in)
	for _, other := range []string{"see foo </", "1 union select 1 --", "<a href='x' onclick=", "\"' or 1=1 #", in + "'", "a </b "} {
		IsSQLi(other)
		IsXSS(other)
		b2, f2 := IsSQLi(in)
		x2 := IsXSS(in)
		if b1 != b2 || f1 != f2 || x1 != x2 {
			return fmt.Sprintf("after a call on %q the answers changed: (%v,%q,%v) -> (%v,%q,%v)", other, b1, f1, x1, b2, f2, x2)
		}
	}
	return ""
}

// C10: changing the case of ASCII letters outside the exempt positions (after a backslash, next
// to a single quote; inputs with '$' or a case-variant of sp_password are skipped) changes
// neither the verdict nor the fingerprint
func zzCaseVariants(in string, exempt func(i int) bool) []string {
	flip := func(c byte) byte {
		if c >= 'a' && c <= 'z' {
			return c - 32
		}
		if c >= 'A' && c <= 'Z' {
			return c + 32
		}
		return c
	}
	var out []string
	mk := func(f func(i int, c byte) byte) {
		b := []byte(in)
		for i := range b {
			if !exempt(i) {
				b[i] = f(i, b[i])
			}
		}
		out = append(out, string(b))
	}
	mk(func(i int, c byte) byte { return flip(c) })
	mk(func(i int, c byte) byte {
		if c >= 'a' && c <= 'z' {
			return c - 32
		}
		return c
	})
	mk(func(i int, c byte) byte {
		if c >= 'A' && c <= 'Z' {
			return c + 32
		}
		return c
	})
	mk(func(i int, c byte) byte {
		if i%2 == 0 {
			return flip(c)
		}
		return c
	})
	for k := 0; k < len(in) && k < 64; k++ {
		kk := k
		mk(func(i int, c byte) byte {
			if i == kk {
				return flip(c)
			}
			return c
		})
	}
	return out
}

func zzExemptC10(in string) func(i int) bool {
	if strings.Contains(in, "$") || strings.Contains(strings.ToLower(in), "sp_password") {
		return func(int) bool { return true }
	}
	return func(i int) bool {
		return (i >= 1 && (in[i-1] == '\\' || in[i-1] == '\'')) || (i+1 < len(in) && in[i+1] == '\'')
	}
}

func zzExemptC11(in string) func(i int) bool {
	up := strings.ToUpper(in)
	return func(i int) bool {
		for j := i - 5; j <= i-1; j++ {
			if j >= 0 && j+7 <= len(up) && up[j:j+7] == "[CDATA[" {
				return true
			}
		}
		return false
	}
}

// the lexer under replay is the one registered for this first byte in both spellings
func byteParsersSame(a, b byte) bool {
	return reflect.ValueOf(byteParsers[a]).Pointer() == reflect.ValueOf(byteParsers[b]).Pointer()
}

func zzUp(c int) int {
	if c >= 'a' && c <= 'z' {
		return c - 32
	}
	return c
}

func zzOracleC10(in string) string {
	if strings.Contains(in, "$") || strings.Contains(strings.ToLower(in), "sp_password") {
		return ""
	}
	exempt := zzExemptC10(in)
	v0, f0 := IsSQLi(in)
	for _, w := range zzCaseVariants(in, exempt) {
		v1, f1 := IsSQLi(w)
		if v0 != v1 || f0 != f1 {
			return fmt.Sprintf("IsSQLi(%q) = (%v,%q) but IsSQLi(%q) = (%v,%q)", in, v0, f0, w, v1, f1)
		}
	}
	return ""
}

// C11 (case part): changing the case of ASCII letters never changes the IsXSS verdict (letters of
// a case-variant of [CDATA[ are held fixed)
func zzOracleC11(in string) string {
	exempt := zzExemptC11(in)
	x0 := IsXSS(in)
	for _, w := range zzCaseVariants(in, exempt) {
		if x1 := IsXSS(w); x0 != x1 {
			return fmt.Sprintf("IsXSS(%q) = %v but IsXSS(%q) = %v", in, x0, w, x1)
		}
	}
	return ""
}

var zzOracles = map[string]func(string) string{
	"C10": zzOracleC10, "C11": zzOracleC11,
	"C05": zzOracleC05, "C08": zzOracleC08, "C12": zzOracleC12, "C13": zzOracleC13, "C15": zzOracleC15,
	"C16": zzOracleC16, "C17": zzOracleC17, "C18": zzOracleC18, "C19": zzOracleC19,
}

// zzDictionary: inputs built from the package's own lists (the solver does not know the table
// contents, so a witness that needs a listed name cannot come from its model).
func zzDictionary() []string {
	var words []string
	for i, e := range blackEvents {
		if i%8 == 0 {
			words = append(words, "ON"+e.name)
		}
	}
	for _, e := range blacks {
		words = append(words, e.name)
	}
	words = append(words, blackTags...)
	var out []string
	for _, w := range words {
		lw := strings.ToLower(w)
		out = append(out, lw, " "+lw, lw+" x", "x "+lw+" y", "'"+lw, "\""+lw+" ", lw+">", "<"+lw+">", "<"+lw+" x=y>", "<a "+lw+"=javascript:1>", lw+"=x")
	}
	out = append(out, "1 union select 1 --", "' or 1=1 --", "\" or 1=1 #", "1; drop table x", "select 1", "a' or 'b'='b", "1 /*!0and*/ 1", "hello world--sp_password", "x' and 1=1 union/* foo */select load_file('/etc/passwd')--")
	return out
}

func zzNeighbours(in string, extra string) []string {
	seen := map[string]bool{in: true}
	out := []string{in}
	defer func() {}()
	alpha := []byte(extra)
	for i := 0; i < len(in); i++ {
		alpha = append(alpha, in[i])
	}
	add := func(s string) {
		if !seen[s] && len(out) < 4000 {
			seen[s] = true
			out = append(out, s)
		}
	}
	for i := 0; i <= len(in); i++ {
		if i < len(in) {
			add(in[:i] + in[i+1:])
		}
		for _, c := range alpha {
			add(in[:i] + string(c) + in[i:])
			if i < len(in) {
				add(in[:i] + string(c) + in[i+1:])
			}
		}
	}
	for _, d := range zzDictionary() {
		if !seen[d] {
			seen[d] = true
			out = append(out, d)
		}
	}
	return out
}
`

package main

// Mode M: frame / ownership / purity obligations discharged syntactically over the SSA of the
// whole package (no solver). Mode G: ground invariants of the package-level tables.

import (
	"encoding/json"
	"fmt"
	"go/types"
	"os"
	"regexp"
	"sort"
	"strings"

	"golang.org/x/tools/go/ssa"
)

func staticObl(name, kind string, tags []string, ok bool, detail, text string) *Obl {
	o := &Obl{Name: name + "#1", Kind: kind, Tags: tags, Text: text, Solver: "syntactic", Func: strings.SplitN(name, "/", 2)[0]}
	if ok {
		o.Status = "discharged"
	} else {
		o.Status = "failed"
		o.Detail = detail
	}
	return o
}

func rootGlobal(v ssa.Value, depth int) *ssa.Global {
	if depth > 20 {
		return nil
	}
	switch x := v.(type) {
	case *ssa.Global:
		return x
	case *ssa.FieldAddr:
		return rootGlobal(x.X, depth+1)
	case *ssa.IndexAddr:
		return rootGlobal(x.X, depth+1)
	case *ssa.UnOp:
		return rootGlobal(x.X, depth+1)
	case *ssa.Slice:
		return rootGlobal(x.X, depth+1)
	case *ssa.ChangeType:
		return rootGlobal(x.X, depth+1)
	case *ssa.Phi:
		for _, e := range x.Edges {
			if g := rootGlobal(e, depth+1); g != nil {
				return g
			}
		}
	}
	return nil
}

// globalAliasedParams: parameters of reference type (map, slice, pointer) that some call site
// binds to memory reachable from a package-level variable (directly or through another such
// parameter). A write through one of them is a write to the shared table.
func (pr *Program) globalAliasedParams() map[*ssa.Parameter]*ssa.Global {
	out := map[*ssa.Parameter]*ssa.Global{}
	changed := true
	var rootG func(v ssa.Value, depth int) *ssa.Global
	rootG = func(v ssa.Value, depth int) *ssa.Global {
		if depth > 20 {
			return nil
		}
		if g := rootGlobal(v, 0); g != nil {
			return g
		}
		switch x := v.(type) {
		case *ssa.Parameter:
			return out[x]
		case *ssa.FieldAddr:
			return rootG(x.X, depth+1)
		case *ssa.IndexAddr:
			return rootG(x.X, depth+1)
		case *ssa.UnOp:
			// load of a spilled parameter cell
			if a, ok := x.X.(*ssa.Alloc); ok {
				if p := paramSpill(a); p != nil {
					return out[p]
				}
			}
			return rootG(x.X, depth+1)
		case *ssa.Slice:
			return rootG(x.X, depth+1)
		case *ssa.ChangeType:
			return rootG(x.X, depth+1)
		}
		return nil
	}
	for changed {
		changed = false
		for _, f := range pr.Funcs {
			for _, b := range f.Blocks {
				for _, in := range b.Instrs {
					c, ok := in.(*ssa.Call)
					if !ok {
						continue
					}
					var targets []*ssa.Function
					if t := c.Call.StaticCallee(); t != nil {
						targets = []*ssa.Function{t}
					} else if _, isB := c.Call.Value.(*ssa.Builtin); !isB {
						targets = pr.dynTargets(c)
					}
					for _, t := range targets {
						if !pr.inPackage(t) {
							continue
						}
						for i, a := range c.Call.Args {
							if i >= len(t.Params) {
								break
							}
							switch t.Params[i].Type().Underlying().(type) {
							case *types.Map, *types.Slice, *types.Pointer:
								if g := rootG(a, 0); g != nil && out[t.Params[i]] == nil {
									out[t.Params[i]] = g
									changed = true
								}
							}
						}
					}
				}
			}
		}
	}
	return out
}

func (pr *Program) writeRootGlobal(v ssa.Value, aliased map[*ssa.Parameter]*ssa.Global, depth int) *ssa.Global {
	if depth > 20 {
		return nil
	}
	if g := rootGlobal(v, 0); g != nil {
		return g
	}
	switch x := v.(type) {
	case *ssa.Parameter:
		return aliased[x]
	case *ssa.FieldAddr:
		return pr.writeRootGlobal(x.X, aliased, depth+1)
	case *ssa.IndexAddr:
		return pr.writeRootGlobal(x.X, aliased, depth+1)
	case *ssa.UnOp:
		if a, ok := x.X.(*ssa.Alloc); ok {
			if p := paramSpill(a); p != nil {
				return aliased[p]
			}
			return nil
		}
		return pr.writeRootGlobal(x.X, aliased, depth+1)
	case *ssa.Slice:
		return pr.writeRootGlobal(x.X, aliased, depth+1)
	case *ssa.ChangeType:
		return pr.writeRootGlobal(x.X, aliased, depth+1)
	}
	return nil
}

var allowedExternal = map[string]bool{
	"strings.IndexByte": true, "bytes.IndexByte": true, "strings.Index": true, "strings.Contains": true,
	"strings.ToUpper": true, "strings.ToLower": true, "strings.ReplaceAll": true, "strings.TrimLeftFunc": true,
	"(*strings.Builder).Grow": true, "(*strings.Builder).WriteByte": true, "(*strings.Builder).String": true,
}

var initialisers = map[string]bool{"init": true, "buildByteParsers": true, "buildAcceptTable": true}

func (pr *Program) callees(f *ssa.Function) []*ssa.Function {
	var out []*ssa.Function
	for _, b := range f.Blocks {
		for _, in := range b.Instrs {
			switch x := in.(type) {
			case *ssa.Call:
				if c := x.Call.StaticCallee(); c != nil {
					out = append(out, c)
				} else if _, isB := x.Call.Value.(*ssa.Builtin); !isB {
					out = append(out, pr.dynTargets(x)...)
				}
			case *ssa.MakeClosure:
				if fn, ok := x.Fn.(*ssa.Function); ok {
					if t := pr.boundTarget(fn); t != nil {
						out = append(out, t)
					}
				}
			}
			// function values passed around
			for _, op := range in.Operands(nil) {
				if op == nil || *op == nil {
					continue
				}
				if fn, ok := (*op).(*ssa.Function); ok && pr.inPackage(fn) {
					out = append(out, fn)
				}
			}
		}
	}
	return out
}

func (pr *Program) reachableFrom(roots ...string) map[*ssa.Function]bool {
	seen := map[*ssa.Function]bool{}
	var walk func(f *ssa.Function)
	walk = func(f *ssa.Function) {
		if f == nil || seen[f] || !pr.inPackage(f) {
			return
		}
		seen[f] = true
		for _, c := range pr.callees(f) {
			walk(c)
		}
	}
	for _, r := range roots {
		walk(pr.Funcs[r])
	}
	return seen
}

func (pr *Program) modeM() []*Obl {
	var obls []*Obl
	tags := []string{"C05"}
	reach := pr.reachableFrom("IsSQLi", "IsXSS")
	aliased := pr.globalAliasedParams()
	var names []string
	for n := range pr.Funcs {
		names = append(names, n)
	}
	sort.Strings(names)
	for _, n := range names {
		f := pr.Funcs[n]
		isInit := initialisers[n]
		var gw, conc, ext, nondet, unsafeUse []string
		for _, b := range f.Blocks {
			for _, in := range b.Instrs {
				line := pr.lineOf(in.Pos())
				at := fmt.Sprintf("%s:%d", pr.fileOf(f), line)
				switch x := in.(type) {
				case *ssa.Store:
					if _, isAlloc := x.Addr.(*ssa.Alloc); isAlloc {
						break
					}
					if g := pr.writeRootGlobal(x.Addr, aliased, 0); g != nil {
						gw = append(gw, fmt.Sprintf("store to %s at %s", g.Name(), at))
					}
				case *ssa.MapUpdate:
					if g := pr.writeRootGlobal(x.Map, aliased, 0); g != nil {
						gw = append(gw, fmt.Sprintf("map update of %s at %s", g.Name(), at))
					}
				case *ssa.Go, *ssa.Select, *ssa.Send, *ssa.MakeChan, *ssa.Defer:
					conc = append(conc, fmt.Sprintf("%T at %s", in, at))
				case *ssa.UnOp:
					if x.Op.String() == "<-" {
						conc = append(conc, "channel receive at "+at)
					}
				case *ssa.Range:
					if _, ok := x.X.Type().Underlying().(*types.Map); ok {
						nondet = append(nondet, "range over map at "+at)
					}
				case *ssa.Convert:
					if b, ok := x.Type().Underlying().(*types.Basic); ok && b.Kind() == types.UnsafePointer {
						unsafeUse = append(unsafeUse, "unsafe.Pointer at "+at)
					}
				case *ssa.Call:
					if bi, ok := x.Call.Value.(*ssa.Builtin); ok {
						switch bi.Name() {
						case "append", "copy":
							if len(x.Call.Args) > 0 {
								if g := pr.writeRootGlobal(x.Call.Args[0], aliased, 0); g != nil {
									gw = append(gw, fmt.Sprintf("%s into %s at %s", bi.Name(), g.Name(), at))
								}
							}
						case "recover":
							conc = append(conc, "recover at "+at)
						}
					}
					if c := x.Call.StaticCallee(); c != nil && !pr.inPackage(c) {
						full := c.String()
						if !allowedExternal[full] {
							pkg := ""
							if c.Pkg != nil {
								pkg = c.Pkg.Pkg.Path()
							}
							switch pkg {
							case "sync", "sync/atomic", "time", "math/rand", "os", "runtime", "unsafe", "reflect":
								nondet = append(nondet, fmt.Sprintf("call to %s at %s", full, at))
							default:
								if !isInit {
									ext = append(ext, fmt.Sprintf("call to %s at %s", full, at))
								}
							}
						}
					}
					if x.Call.IsInvoke() {
						ext = append(ext, "interface method call at "+at)
					}
				}
			}
		}
		if !isInit {
			obls = append(obls, staticObl(n+"/M/no-global-write", "purity", []string{"C05", "C20"}, len(gw) == 0, strings.Join(gw, "; "), "no write to memory reachable from a package-level variable (directly or through a parameter bound to one)"))
		}
		if reach[f] {
			obls = append(obls, staticObl(n+"/M/no-concurrency-primitives", "purity", tags, len(conc) == 0, strings.Join(conc, "; "), "no go/select/channel/defer/recover"))
			obls = append(obls, staticObl(n+"/M/deterministic", "purity", tags, len(nondet) == 0 && len(unsafeUse) == 0, strings.Join(append(nondet, unsafeUse...), "; "), "no map iteration, time, rand, os, runtime, sync, unsafe"))
			obls = append(obls, staticObl(n+"/M/external-calls-allowed", "purity", tags, len(ext) == 0, strings.Join(ext, "; "), "external callees are on the allow-list of pure functions"))
			if isInit {
				obls = append(obls, staticObl(n+"/M/initialiser-not-reachable", "purity", tags, false, "package initialiser reachable from IsSQLi/IsXSS", "initialisers run only at package load"))
			}
		}
	}
	// package-level variables: none of pointer-to-state type (no pooled / cached scanner state)
	var badGlobals []string
	for name, m := range pr.SSAPkg.Members {
		if g, ok := m.(*ssa.Global); ok {
			t := deref(g.Type())
			if holdsState(pr, t, 0) {
				badGlobals = append(badGlobals, name+" "+t.String())
			}
		}
	}
	sort.Strings(badGlobals)
	obls = append(obls, staticObl("package/M/no-shared-scanner-state", "purity", tags, len(badGlobals) == 0, strings.Join(badGlobals, "; "), "no package-level variable can hold scanner state (sqliState, sqliToken, h5State), a pool, a mutex or a channel"))
	// entry points allocate their state
	for _, ep := range []string{"IsSQLi", "isXSS"} {
		f := pr.Funcs[ep]
		ok := false
		if f != nil {
			for _, b := range f.Blocks {
				for _, in := range b.Instrs {
					if a, isA := in.(*ssa.Alloc); isA && a.Heap && pr.heapStructOf(deref(a.Type())) != "" {
						ok = true
					}
				}
			}
		}
		obls = append(obls, staticObl(ep+"/M/fresh-state-per-call", "purity", tags, ok, "no new(...) of the scanner state in "+ep, "the scanner state is allocated inside the call"))
	}
	// C09: a fixed number of passes: the two orchestrators are loop-free and start at most five passes
	for _, pc := range []struct{ fn, callee string }{{"IsXSS", "isXSS"}, {"(*sqliState).check", "(*sqliState).sqliFingerprint"}} {
		f := pr.Funcs[pc.fn]
		ok := f != nil
		detail := ""
		if f != nil {
			n := 0
			for _, b := range f.Blocks {
				for _, sc := range b.Succs {
					if sc.Dominates(b) {
						ok = false
						detail = "contains a loop"
					}
				}
				for _, in := range b.Instrs {
					if c, isC := in.(*ssa.Call); isC {
						if t := c.Call.StaticCallee(); t != nil && pr.funcName(t) == pc.callee {
							n++
						}
					}
				}
			}
			if n > 5 {
				ok = false
				detail = fmt.Sprintf("%d call sites of %s", n, pc.callee)
			}
		}
		obls = append(obls, staticObl(pc.fn+"/K/fixed-passes", "cost", []string{"C09"}, ok, detail, "loop-free and at most five passes"))
	}
	// recursion: every function on a call-graph cycle carries a rank
	for _, n := range names {
		f := pr.Funcs[n]
		if !reach[f] {
			continue
		}
		if pr.onCycle(f) {
			fc := pr.Cs.Funcs[n]
			ok := fc != nil && fc.Rank != nil
			t := []string{"C02"}
			if strings.HasPrefix(pr.fileOf(f), "sqli") {
				t = []string{"C01"}
			}
			obls = append(obls, staticObl(n+"/T/recursion-has-rank", "rank", t, ok, "function is on a call cycle but has no rank clause", "bounded recursion"))
		}
	}
	return obls
}

func holdsState(pr *Program, t types.Type, depth int) bool {
	if depth > 6 {
		return false
	}
	if pr.heapStructOf(t) != "" {
		return true
	}
	switch u := t.Underlying().(type) {
	case *types.Pointer:
		return holdsState(pr, u.Elem(), depth+1)
	case *types.Slice:
		return holdsState(pr, u.Elem(), depth+1)
	case *types.Array:
		return holdsState(pr, u.Elem(), depth+1)
	case *types.Map:
		return holdsState(pr, u.Elem(), depth+1) || holdsState(pr, u.Key(), depth+1)
	case *types.Chan:
		return true
	case *types.Struct:
		if n, ok := t.(*types.Named); ok && n.Obj().Pkg() != nil && n.Obj().Pkg().Path() == "sync" {
			return true
		}
		for i := 0; i < u.NumFields(); i++ {
			if holdsState(pr, u.Field(i).Type(), depth+1) {
				return true
			}
		}
	case *types.Interface:
		return true
	}
	return false
}

func (pr *Program) onCycle(f *ssa.Function) bool {
	seen := map[*ssa.Function]bool{}
	var walk func(g *ssa.Function) bool
	walk = func(g *ssa.Function) bool {
		for _, c := range pr.callees(g) {
			if !pr.inPackage(c) {
				continue
			}
			if c == f {
				return true
			}
			if !seen[c] {
				seen[c] = true
				if walk(c) {
					return true
				}
			}
		}
		return false
	}
	return walk(f)
}

// definesObligations: a `defines` clause introduces an uninterpreted function as the meaning of a
// function's result. It is not proved by the solver; it is justified by determinism and by a
// read-set argument, which are checked syntactically here (DESIGN.md section 5, mode M).
func (pr *Program) definesObligations() []*Obl {
	var obls []*Obl
	mm := pr.modeM()
	failedM := map[string][]string{}
	for _, o := range mm {
		if o.Status != "discharged" {
			failedM[o.Func] = append(failedM[o.Func], baseName(o.Name))
		}
	}
	var names []string
	for n, fc := range pr.Cs.Funcs {
		if len(fc.Defines) > 0 {
			names = append(names, n)
		}
	}
	sort.Strings(names)
	for _, n := range names {
		fc := pr.Cs.Funcs[n]
		f := pr.Funcs[n]
		if f == nil {
			continue
		}
		var why []string
		for g := range pr.reachableFrom(n) {
			if bad := failedM[pr.funcName(g)]; len(bad) > 0 {
				why = append(why, bad...)
			}
		}
		if bad := failedM["package"]; len(bad) > 0 {
			why = append(why, bad...)
		}
		hasStateParam := false
		for _, p := range f.Params {
			if pr.heapStructOf(deref(p.Type())) != "" {
				hasStateParam = true
			}
		}
		switch fc.Justify {
		case "pureOfParams":
			if hasStateParam {
				why = append(why, "has a scanner-state parameter")
			}
			// map/slice parameters must be package-level tables at every call site
			for i, p := range f.Params {
				switch p.Type().Underlying().(type) {
				case *types.Map, *types.Slice:
					for _, g := range pr.Funcs {
						for _, b := range g.Blocks {
							for _, in := range b.Instrs {
								if c, ok := in.(*ssa.Call); ok && c.Call.StaticCallee() == f {
									if rootGlobal(c.Call.Args[i], 0) == nil {
										why = append(why, fmt.Sprintf("call in %s passes a non-table %s", pr.funcName(g), p.Name()))
									}
								}
							}
						}
					}
				}
			}
		case "readsState2":
			// reads only the state reachable from its parameters; may write what its SMT-checked modifies clause allows
		case "readsState":
			if !fc.HasMod || len(fc.Modifies) != 0 {
				why = append(why, "needs `modifies nothing`")
			}
		case "afterReset":
			ok := false
			for _, in := range f.Blocks[0].Instrs {
				if c, isCall := in.(*ssa.Call); isCall {
					if cal := c.Call.StaticCallee(); cal != nil && pr.inPackage(cal) {
						cn := pr.funcName(cal)
						if (cn == "(*sqliState).reset" || cn == "sqliInit") && pr.Cs.Funcs[cn] != nil {
							ok = true
						}
						break
					}
				}
			}
			if !ok {
				why = append(why, "the first call is not reset/sqliInit (with a full-state contract)")
			}
		case "freshState":
			if hasStateParam {
				why = append(why, "has a scanner-state parameter")
			}
			alloc := false
			for _, b := range f.Blocks {
				for _, in := range b.Instrs {
					if a, ok := in.(*ssa.Alloc); ok && a.Heap && pr.heapStructOf(deref(a.Type())) != "" {
						alloc = true
					}
				}
			}
			if !alloc {
				why = append(why, "does not allocate its scanner state")
			}
		default:
			why = append(why, "no justification kind given")
		}
		sort.Strings(why)
		for i, d := range fc.Defines {
			tags := d.Tags
			if len(tags) == 0 {
				tags = []string{"C05"}
			}
			o := staticObl(n+"/defines/"+clauseLabel(d, i), "purity", tags, len(why) == 0, firstN(why, 6), "deterministic function of its declared inputs ("+fc.Justify+"): "+d.Text)
			o.Line = d.Line
			obls = append(obls, o)
		}
	}
	return obls
}

// ---------------------------------------------------------------- mode G

func (pr *Program) classAlphabet() map[int]string {
	out := map[int]string{}
	sc := pr.Pkg.Types.Scope()
	for _, n := range sc.Names() {
		if strings.HasPrefix(n, "sqliTokenType") && n != "sqliTokenTypeNone" {
			if k, ok := sc.Lookup(n).(*types.Const); ok {
				var v int
				fmt.Sscan(k.Val().ExactString(), &v)
				out[v] = n
			}
		}
	}
	return out
}

func firstN(xs []string, n int) string {
	if len(xs) > n {
		return strings.Join(xs[:n], ", ") + fmt.Sprintf(" … (%d in all)", len(xs))
	}
	return strings.Join(xs, ", ")
}

func (pr *Program) modeG(baselinePath string) []*Obl {
	tb := pr.Tables
	tags := []string{"C20"}
	var obls []*Obl
	add := func(name string, bad []string, text string) {
		sort.Strings(bad)
		obls = append(obls, staticObl("tables/G/"+name, "table", tags, len(bad) == 0, firstN(bad, 8), text))
	}
	sigma := pr.classAlphabet()
	var keys []string
	for k := range tb.SqlKeywords {
		keys = append(keys, k)
	}
	sort.Strings(keys)
	upperClass := ""
	for v := range sigma {
		ch := byte(v)
		if ch >= 'a' && ch <= 'z' {
			ch -= 32
		}
		upperClass += regexp.QuoteMeta(string(ch))
	}
	fpRe := regexp.MustCompile("^0[" + upperClass + "]{1,5}$")
	var notUpper, badLen, badVal, badF, badFn []string
	for _, k := range keys {
		v := tb.SqlKeywords[k]
		if strings.ToUpper(k) != k || strings.ContainsAny(k, "abcdefghijklmnopqrstuvwxyz") {
			notUpper = append(notUpper, fmt.Sprintf("%q", k))
		}
		if len(k) < 1 || len(k) > 31 {
			badLen = append(badLen, fmt.Sprintf("%q", k))
		}
		if _, ok := sigma[v]; !ok {
			badVal = append(badVal, fmt.Sprintf("%q:%q", k, rune(v)))
		}
		if (v == 'F') != fpRe.MatchString(k) {
			badF = append(badF, fmt.Sprintf("%q:%q", k, rune(v)))
		}
		if v == 'f' && len(k) < 2 {
			badFn = append(badFn, fmt.Sprintf("%q", k))
		}
	}
	add("sqlKeywords/keys-upper-case", notUpper, "every key is already upper-case (reachable by the case-folding look-up)")
	add("sqlKeywords/key-length-1-31", badLen, "every key has 1..31 bytes")
	add("sqlKeywords/values-in-class-alphabet", badVal, "every value is a token class character")
	add("sqlKeywords/fingerprint-shape", badF, "class F <=> key is 0 followed by 1-5 class characters")
	add("sqlKeywords/function-names-2plus", badFn, "function names have at least two characters")
	nameOK := func(n string) bool {
		return n != "" && !strings.ContainsAny(n, "abcdefghijklmnopqrstuvwxyz\x00") && strings.ToUpper(n) == n
	}
	var badTag, badAttr, badEv, badType []string
	for _, t := range tb.BlackTags {
		if !nameOK(t) {
			badTag = append(badTag, fmt.Sprintf("%q", t))
		}
	}
	for _, e := range tb.Blacks {
		if !nameOK(e.Name) {
			badAttr = append(badAttr, fmt.Sprintf("%q", e.Name))
		}
		if e.Type < 1 || e.Type > 4 {
			badType = append(badType, fmt.Sprintf("%q:%d", e.Name, e.Type))
		}
	}
	for _, e := range tb.BlackEvents {
		if !nameOK(e.Name) {
			badEv = append(badEv, fmt.Sprintf("%q", e.Name))
		}
		if e.Type < 1 || e.Type > 4 {
			badType = append(badType, fmt.Sprintf("ON%q:%d", e.Name, e.Type))
		}
	}
	add("blackTags/names-upper-nul-free", badTag, "black tag names are upper-case, NUL-free, non-empty")
	add("blacks/names-upper-nul-free", badAttr, "black attribute names are upper-case, NUL-free, non-empty")
	add("blackEvents/names-upper-nul-free", badEv, "event names are upper-case, NUL-free, non-empty")
	add("attribute-types-valid", badType, "attribute types are one of the four non-none kinds")
	var badHex []string
	if len(tb.GsHexDecodeMap) != 256 {
		badHex = append(badHex, fmt.Sprintf("length %d", len(tb.GsHexDecodeMap)))
	} else {
		for i, v := range tb.GsHexDecodeMap {
			want := 256
			switch {
			case i >= '0' && i <= '9':
				want = i - '0'
			case i >= 'a' && i <= 'f':
				want = i - 'a' + 10
			case i >= 'A' && i <= 'F':
				want = i - 'A' + 10
			}
			if v != want {
				badHex = append(badHex, fmt.Sprintf("[%d]=%d want %d", i, v, want))
			}
		}
	}
	add("gsHexDecodeMap/digit-values", badHex, "256 entries, hex digit values correct, 256 elsewhere")
	// C06 / C10: the dispatch table against the reference byte classes of the libinjection algorithm
	{
		ref := func(i int) string {
			switch {
			case i <= 32 || i == 127 || i == 160:
				return "parseWhite"
			case i == '!' || i == '&' || i == '*' || i == ':' || i == '<' || i == '=' || i == '>' || i == '|':
				return "parseOperator2"
			case i == '"' || i == '\'':
				return "parseString"
			case i == '#':
				return "parseHash"
			case i == '$':
				return "parseMoney"
			case i == '%' || i == '+' || i == '^' || i == '~':
				return "parseOperator1"
			case i == '(' || i == ')' || i == ',' || i == ';' || i == '{' || i == '}':
				return "parseByte"
			case i == '-':
				return "parseDash"
			case i == '.' || (i >= '0' && i <= '9'):
				return "parseNumber"
			case i == '/':
				return "parseSlash"
			case i == '?' || i == ']':
				return "parseOther"
			case i == '@':
				return "parseVar"
			case i == 'B' || i == 'b':
				return "parseBString"
			case i == 'E' || i == 'e':
				return "parseEString"
			case i == 'N' || i == 'n':
				return "parseNqString"
			case i == 'Q' || i == 'q':
				return "parseQString"
			case i == 'U' || i == 'u':
				return "parseUString"
			case i == 'X' || i == 'x':
				return "parseXString"
			case i == '[':
				return "parseBWord"
			case i == '\\':
				return "parseBackSlash"
			case i == '`':
				return "parseTick"
			}
			return "parseWord"
		}
		var bad, asym []string
		if len(tb.ByteParsers) != 256 {
			bad = append(bad, fmt.Sprintf("length %d", len(tb.ByteParsers)))
		} else {
			for i, n := range tb.ByteParsers {
				if n != ref(i) {
					bad = append(bad, fmt.Sprintf("[%d]=%s want %s", i, n, ref(i)))
				}
				if i >= 'a' && i <= 'z' && tb.ByteParsers[i] != tb.ByteParsers[i-32] {
					asym = append(asym, fmt.Sprintf("%q:%s vs %q:%s", rune(i), n, rune(i-32), tb.ByteParsers[i-32]))
				}
			}
		}
		sort.Strings(bad)
		obls = append(obls, staticObl("tables/G/byteParsers/reference-dispatch", "table", []string{"C06"}, len(bad) == 0, firstN(bad, 8), "the evaluated 256-entry dispatch table equals the reference byte classes"))
		obls = append(obls, staticObl("tables/G/byteParsers/case-symmetric", "table", []string{"C06", "C10"}, len(asym) == 0, firstN(asym, 8), "both cases of every ASCII letter dispatch to the same lexer"))
	}
	// baseline
	var base Tables
	b, err := os.ReadFile(baselinePath)
	if err != nil {
		obls = append(obls, staticObl("tables/G/baseline/readable", "table", tags, false, err.Error(), "baseline snapshot present"))
		return obls
	}
	if err := json.Unmarshal(b, &base); err != nil {
		obls = append(obls, staticObl("tables/G/baseline/readable", "table", tags, false, err.Error(), "baseline snapshot parses"))
		return obls
	}
	var missKW, missTag, missAttr, missEv []string
	for k, v := range base.SqlKeywords {
		if cv, ok := tb.SqlKeywords[k]; !ok {
			missKW = append(missKW, fmt.Sprintf("%q missing", k))
		} else if cv != v {
			missKW = append(missKW, fmt.Sprintf("%q: %q -> %q", k, rune(v), rune(cv)))
		}
	}
	curTags := map[string]bool{}
	for _, t := range tb.BlackTags {
		curTags[t] = true
	}
	for _, t := range base.BlackTags {
		if !curTags[t] {
			missTag = append(missTag, fmt.Sprintf("%q missing", t))
		}
	}
	cmpNT := func(cur, bs []NameType) []string {
		m := map[string]int{}
		for _, e := range cur {
			if _, dup := m[e.Name]; !dup {
				m[e.Name] = e.Type
			}
		}
		var out []string
		for _, e := range bs {
			if t, ok := m[e.Name]; !ok {
				out = append(out, fmt.Sprintf("%q missing", e.Name))
			} else if t != e.Type {
				out = append(out, fmt.Sprintf("%q: type %d -> %d", e.Name, e.Type, t))
			}
		}
		return out
	}
	missAttr = cmpNT(tb.Blacks, base.Blacks)
	missEv = cmpNT(tb.BlackEvents, base.BlackEvents)
	add("baseline/sqlKeywords-superset", missKW, fmt.Sprintf("all %d baseline keywords/fingerprints present with equal class", len(base.SqlKeywords)))
	add("baseline/blackTags-superset", missTag, fmt.Sprintf("all %d baseline black tags present", len(base.BlackTags)))
	add("baseline/blacks-superset", missAttr, fmt.Sprintf("all %d baseline black attributes present with equal type", len(base.Blacks)))
	add("baseline/blackEvents-superset", missEv, fmt.Sprintf("all %d baseline events present with equal type", len(base.BlackEvents)))
	// look-up lemma: first list match wins in isBlackAttr, so duplicate names with different types would shadow
	var dup []string
	seenN := map[string]int{}
	for _, e := range tb.Blacks {
		if t, ok := seenN[e.Name]; ok && t != e.Type {
			dup = append(dup, e.Name)
		}
		seenN[e.Name] = e.Type
	}
	add("blacks/no-conflicting-duplicates", dup, "no attribute name is listed twice with different types")
	return obls
}

package main

// Counterexample extraction and replay on the real code.
//
// For a failed obligation the proof query is re-run with (get-value ...) on the terms that
// describe the function's input state (input string, scan position, flags). The candidate is
// only believed if the real code, compiled from /repo with an injected in-package test
// (go test -overlay; nothing is written into /repo), misbehaves on it: a panic, a hang, or a
// violated run-time oracle of the property.

import (
	"fmt"
	"regexp"
	"strconv"
	"strings"

	"golang.org/x/tools/go/ssa"
)

type inputTerms struct {
	A, O, L string
	extra   map[string]string // name -> term (pos, flags, ...)
}

func (c *Ctx) inputTerms() *inputTerms {
	fr := c.topFrame
	if fr == nil {
		return nil
	}
	for _, p := range c.top.Params {
		v := fr.paramVs[p]
		if v.K == KRef {
			ref := v.C[0]
			h := func(sn, f string, k int) string {
				return "(select H0_" + sn + "_" + f + "_" + fmt.Sprint(k) + " " + ref + ")"
			}
			switch v.SName {
			case "h5State":
				return &inputTerms{A: h("h5State", "s", 0), O: h("h5State", "s", 1), L: h("h5State", "s", 2),
					extra: map[string]string{"pos": h("h5State", "pos", 0), "isClose": h("h5State", "isClose", 0)}}
			case "sqliState":
				return &inputTerms{A: h("sqliState", "input", 0), O: h("sqliState", "input", 1), L: h("sqliState", "input", 2),
					extra: map[string]string{"pos": h("sqliState", "pos", 0), "flags": h("sqliState", "flags", 0)}}
			}
		}
	}
	for _, p := range c.top.Params {
		v := fr.paramVs[p]
		if v.K == KStr {
			it := &inputTerms{A: v.C[0], O: v.C[1], L: v.C[2], extra: map[string]string{}}
			for _, q := range c.top.Params {
				w := fr.paramVs[q]
				if w.K == KInt {
					it.extra[q.Name()] = w.C[0]
				}
			}
			return it
		}
	}
	return nil
}

const replayMaxLen = 48

var valRe = regexp.MustCompile(`\(\s*(\(select[^\n]*?\)|[A-Za-z_][A-Za-z0-9_]*)\s+(\(- \d+\)|-?\d+|true|false)\s*\)`)

// modelInput asks the solver for the input state of the counterexample.
func modelInput(o *Obl) (string, []byte, bool) {
	if o.failedPart != nil {
		o = o.failedPart
	}
	it := o.ctx.inputTerms()
	q := o.query(false)
	if it == nil {
		res, raw, _ := runSolver(solvers[0], q, 10)
		return res + "\n" + clip(raw, 2000), nil, false
	}
	var terms []string
	terms = append(terms, it.L)
	for i := 0; i < replayMaxLen; i++ {
		terms = append(terms, "(select "+it.A+" (+ "+it.O+" "+fmt.Sprint(i)+"))")
	}
	var extraNames []string
	for n, t := range it.extra {
		extraNames = append(extraNames, n)
		terms = append(terms, t)
	}
	// prefer short inputs: try increasing length bounds
	for _, bound := range []int{4, 8, 16, replayMaxLen} {
		q2 := strings.Replace(q, "(check-sat)\n", fmt.Sprintf("(assert (<= %s %d))\n(check-sat)\n", it.L, bound), 1)
		q2 += "(get-value (" + strings.Join(terms, " ") + "))\n"
		res, raw, _ := runSolver(solvers[0], q2, 10)
		if res != "sat" && res != "unknown" {
			continue
		}
		vals := parseValues(raw)
		if len(vals) < len(terms) {
			continue
		}
		n := vals[0]
		if n < 0 || n > int64(replayMaxLen) {
			continue
		}
		input := make([]byte, n)
		for i := int64(0); i < n; i++ {
			input[i] = byte(vals[1+i] & 0xff)
		}
		var ex []string
		for k, name := range extraNames {
			ex = append(ex, fmt.Sprintf("%s=%d", name, vals[1+replayMaxLen+k]))
		}
		return fmt.Sprintf("%s (len<=%d) %s\n%s", res, bound, strings.Join(ex, " "), clip(raw, 1500)), input, true
	}
	res, raw, _ := runSolver(solvers[0], q, 10)
	return res + "\n" + clip(raw, 2000), nil, false
}

func clip(s string, n int) string {
	if len(s) > n {
		return s[:n] + " …"
	}
	return s
}

// parseValues reads the values of a (get-value ...) answer in order.
func parseValues(raw string) []int64 {
	k := strings.Index(raw, "((")
	if k < 0 {
		return nil
	}
	body := raw[k:]
	var out []int64
	// walk pairs: "(" term value ")" where term may contain parentheses
	i := 1
	for i < len(body) {
		for i < len(body) && (body[i] == ' ' || body[i] == '\n') {
			i++
		}
		if i >= len(body) || body[i] != '(' {
			break
		}
		// find matching close of this pair
		d := 0
		j := i
		for ; j < len(body); j++ {
			if body[j] == '(' {
				d++
			} else if body[j] == ')' {
				d--
				if d == 0 {
					break
				}
			}
		}
		pair := body[i+1 : j]
		// value = last token (possibly "(- n)")
		pair = strings.TrimSpace(pair)
		var vs string
		if strings.HasSuffix(pair, ")") {
			// either term ends with ) and value precedes?? value is last: "(- n)"
			m := strings.LastIndex(pair, "(- ")
			if m >= 0 && !strings.ContainsAny(pair[m+3:len(pair)-1], "() ") {
				vs = "-" + pair[m+3:len(pair)-1]
			}
		}
		if vs == "" {
			f := strings.Fields(pair)
			vs = f[len(f)-1]
		}
		switch vs {
		case "true":
			out = append(out, 1)
		case "false":
			out = append(out, 0)
		default:
			n, err := strconv.ParseInt(vs, 10, 64)
			if err != nil {
				return out
			}
			out = append(out, n)
		}
		i = j + 1
	}
	return out
}

const replayTestSrc = `package libinjection

import (
	"fmt"
	"os"
	"reflect"
	"strings"
	"testing"
	"time"
)

var _ = strings.Index
var _ = reflect.ValueOf

func zzRun(name string, f func()) (res string) {
	done := make(chan string, 1)
	go func() {
		defer func() {
			if r := recover(); r != nil {
				done <- fmt.Sprintf("PANIC %%v", r)
			}
		}()
		f()
		done <- "ok"
	}()
	select {
	case r := <-done:
		return r
	case <-time.After(10 * time.Second):
		return "HANG"
	}
}
%s
func TestZZVerifReplay(t *testing.T) {
	input := string([]byte{%s})
	prop := %q
	bad := false
	report := func(what, in, r string) {
		if r != "ok" && r != "" {
			fmt.Printf("REPLAY %%s input=%%q hex=%%x -> %%s\n", what, in, in, r)
			bad = true
		}
	}
	cands := zzNeighbours(input, %q)
	for i, in := range cands {
		in := in
		report("IsSQLi", in, zzRun("IsSQLi", func() { IsSQLi(in) }))
		report("IsXSS", in, zzRun("IsXSS", func() { IsXSS(in) }))
		if o := zzOracles[prop]; o != nil {
			var msg string
			r := zzRun("oracle", func() { msg = o(in) })
			if r != "ok" {
				msg = r
			}
			report("oracle "+prop, in, msg)
		}
		if bad {
			fmt.Printf("REPLAY-CANDIDATE %%d of %%d (0 = the solver's own input)\n", i, len(cands))
			break
		}
	}
%s
	if bad {
		fmt.Println("REPLAY-RESULT reproduced")
		os.Exit(3)
	}
	fmt.Println("REPLAY-RESULT not-reproduced")
}
`

func (pr *Program) replayAPI(prop string, o *Obl, input []byte) (bool, string) {
	var bs []string
	for _, b := range input {
		bs = append(bs, fmt.Sprint(b))
	}
	extra := ""
	// function-level replay for tokenizer state functions and SQL lexers: start the real
	// function in the model's state
	fn := o.ctx.top
	if len(fn.Params) == 1 {
		switch {
		case strings.HasPrefix(o.ctx.topName, "(*h5State).") && fn.Signature.Results().Len() == 1:
			m := strings.TrimPrefix(o.ctx.topName, "(*h5State).")
			extra = fmt.Sprintf(`	for p := 0; p <= len(input); p++ {
		pp := p
		report(fmt.Sprintf("%s@pos=%%d", pp), zzRun("fn", func() {
			h := &h5State{s: input, len: len(input), pos: pp}
			h.state = h.stateData
			for i := 0; i <= len(input)+2 && h.%s(); i++ {
				_ = h.tokenStart[:h.tokenLen]
				h.state = h.stateEOF
			}
		}))
	}
`, m, m)
		case fn.Params[0].Type().String() == "*github.com/corazawaf/libinjection-go.sqliState" && fn.Signature.Results().Len() == 1 && fn.Signature.Recv() == nil:
			extra = fmt.Sprintf(`	for _, fl := range []int{9, 17, 10, 18, 20} {
		for p := 0; p < len(input); p++ {
			pp, ff := p, fl
			report(fmt.Sprintf("%s@pos=%%d,flags=%%d", pp, ff), zzRun("fn", func() {
				s := new(sqliState)
				sqliInit(s, input, ff)
				s.pos = pp
				r := %s(s)
				if r <= pp || r > len(input) {
					panic(fmt.Sprintf("no progress: %%d -> %%d", pp, r))
				}
			}))
		}
	}
`, o.ctx.topName, o.ctx.topName)
		}
	}
	if prop == "C10" || prop == "C11" {
		extra += relReplayExtra(o.ctx.topName, fn)
	}
	alpha := map[string]string{
		"C15": "oncliks ja:'\"`>/ &#;",
		"C17": "<>%-!]?'\"`/ \x00[",
		"C02": "<>%-!]?'\"`/ \x00[",
		"C18": "'\"\\`",
		"C19": "&#xX;0aF",
		"C16": "'\"-#/*$@. 1e",
		"C01": "'\"-#/*$@. 1e\\`",
		"C10": "nNxXeEqQuUbB'\" 1.;-",
		"C11": "<>=\"' /scriptONxXjJ",
	}[prop]
	extra = strings.ReplaceAll(extra, "report(fmt.Sprintf(", "report2(fmt.Sprintf(")
	extra = "	report2 := func(what, r string) { report(what, input, r) }\n	_ = report2\n" + extra
	src := fmt.Sprintf(replayTestSrc, oracleSrc, strings.Join(bs, ", "), prop, alpha, extra)
	out, _ := runOverlayTest(pr.RepoDir, map[string]string{"zz_verif_replay_test.go": src}, "^TestZZVerifReplay$", nil, 60)
	var keep []string
	for _, l := range strings.Split(out, "\n") {
		if strings.HasPrefix(l, "REPLAY") && !strings.HasSuffix(l, "-> ok") {
			keep = append(keep, l)
		}
	}
	if !strings.Contains(out, "REPLAY-RESULT") {
		// the harness did not run (e.g. it does not compile against the changed tree)
		return false, "replay harness did not run: " + clip(out, 1500)
	}
	return strings.Contains(out, "REPLAY-RESULT reproduced"), clip(strings.Join(keep, "\n"), 3000)
}

// relReplayExtra: function-level two-run replay for mode R obligations: the function is run on the
// model's input and on systematic case variants of it (exempt positions held fixed), from every
// position / mode, and the observable results are compared.
func relReplayExtra(name string, fn *ssa.Function) string {
	sig := fn.Signature
	switch {
	case name == "htmlDecodeByteAt":
		return `	for p := 0; p <= len(input); p++ {
		a := input[p:]
		v0, c0 := htmlDecodeByteAt(a)
		for _, w := range zzCaseVariants(a, func(int) bool { return false }) {
			v1, c1 := htmlDecodeByteAt(w)
			if zzUp(v0) != zzUp(v1) || c0 != c1 {
				report2("htmlDecodeByteAt", fmt.Sprintf("(%q) = (%d,%d) but (%q) = (%d,%d)", a, v0, c0, w, v1, c1))
			}
		}
	}
`
	case name == "isBlackTag" || name == "isBlackAttr" || name == "isBlackURL":
		return fmt.Sprintf(`	for p := 0; p <= len(input); p++ {
		a := input[p:]
		r0 := fmt.Sprint(%s(a))
		for _, w := range zzCaseVariants(a, func(int) bool { return false }) {
			if r1 := fmt.Sprint(%s(w)); r0 != r1 {
				report2("%s", fmt.Sprintf("(%%q) = %%s but (%%q) = %%s", a, r0, w, r1))
			}
		}
	}
`, name, name, name)
	case len(fn.Params) == 1 && fn.Params[0].Type().String() == "*github.com/corazawaf/libinjection-go.sqliState" && sig.Results().Len() == 1 && sig.Recv() == nil:
		return fmt.Sprintf(`	{
		obs := func(in string, pp, ff int) (out string) {
			defer func() {
				if e := recover(); e != nil {
					out = fmt.Sprint("panic: ", e)
				}
			}()
			s := new(sqliState)
			sqliInit(s, in, ff)
			s.pos = pp
			r := %s(s)
			t := s.current
			return fmt.Sprintf("next=%%d cat=%%d pos=%%d len=%%d open=%%d close=%%d val=%%q hash=%%d ddw=%%d ddx=%%d", r, t.category, t.pos, t.len, t.strOpen, t.strClose, strings.ToUpper(t.val), s.statsCommentHash, s.statsCommentDDW, s.statsCommentDDX)
		}
		ex := zzExemptC10(input)
		for _, fl := range []int{9, 17, 10, 18, 20} {
			for p := 0; p < len(input); p++ {
				o0 := obs(input, p, fl)
				for _, w := range zzCaseVariants(input, ex) {
					if byteParsersSame(input[p], w[p]) {
						if o1 := obs(w, p, fl); o0 != o1 {
							report2(fmt.Sprintf("%s@pos=%%d,flags=%%d", p, fl), fmt.Sprintf("on %%q: %%s but on %%q: %%s", input, o0, w, o1))
						}
					}
				}
			}
		}
	}
`, name, name)
	}
	return ""
}

package main

import (
	"encoding/json"
	"flag"
	"fmt"
	"os"
	"path/filepath"
	"sort"
	"strings"
	"time"
)

var (
	flagRepo      = flag.String("repo", "/repo", "repository under verification")
	flagContracts = flag.String("contracts", "", "contract file (default <repo>/verif_contracts.go)")
	flagTimeout   = flag.Int("timeout", 10, "per-solver timeout (s)")
	flagWorkers   = flag.Int("workers", 16, "parallel solver processes")
	flagDump      = flag.String("dump", "", "directory to dump failing queries")
	flagVerbose   = flag.Bool("v", false, "verbose")
	flagSplit     = flag.Bool("split", false, "diagnosis: split conjunctive goals into one obligation per conjunct")
	flagDumpAll   = flag.String("dumpname", "", "dump queries whose name contains this string to /tmp/vcdump")
	flagGenOnly   = flag.Bool("genonly", false, "generate obligations only")
	flagOnly      = flag.String("only", "", "only obligations whose name contains this string")
	flagOut       = flag.String("out", "", "directory for evidence/ and replays/ (default /verif)")
)

// checkProp is set while running `check`: a tree the generator cannot even load is then reported
// as an undecided property (VIOLATION ... no-failing-input-found, exit 1), not as a tool error.
var checkProp string

func setupFailed(msg string) {
	fmt.Fprintln(os.Stderr, msg)
	if checkProp == "" {
		os.Exit(2)
	}
	dir := filepath.Join(outDir(), "replays", checkProp)
	os.MkdirAll(dir, 0o755)
	rp := filepath.Join(dir, "generator_setup.json")
	b, _ := json.MarshalIndent(map[string]interface{}{"property": checkProp, "obligation": "generator/setup", "status": "unknown",
		"detail": "the verification conditions could not be generated from this tree (it does not load, or a table the contracts rely on is gone): every obligation of the property is undecided", "output": msg}, "", " ")
	os.WriteFile(rp, b, 0o644)
	ev := map[string]interface{}{"property_id": checkProp, "tier": os.Getenv("VERIF_TIER"), "level": "proof", "violations": 1,
		"assumptions": []string{"none: generation failed"}, "coverage": map[string]interface{}{"obligations": 0, "discharged": 0, "generator_errors": []string{msg}}}
	eb, _ := json.MarshalIndent(ev, "", " ")
	os.MkdirAll(filepath.Join(outDir(), "evidence"), 0o755)
	os.WriteFile(filepath.Join(outDir(), "evidence", checkProp+".json"), eb, 0o644)
	fmt.Printf("VIOLATION property=%s replay=%s obligation=\"generator/setup\" status=unknown no-failing-input-found\n", checkProp, rp)
	os.Exit(1)
}

func setup() *Program {
	pr, err := loadProgram(*flagRepo)
	if err != nil {
		setupFailed("load: " + err.Error())
	}
	cp := *flagContracts
	if cp == "" {
		cp = *flagRepo + "/verif_contracts.go"
	}
	cs, err := loadContracts(cp)
	if err != nil {
		if os.IsNotExist(err) {
			cs = &Contracts{Specs: map[string]*Spec{}, Funcs: map[string]*FuncContract{}}
		} else {
			setupFailed("contracts: " + err.Error())
		}
	}
	pr.Cs = cs
	tb, err := loadTables(*flagRepo, func(name string) bool { return pr.Pkg.Types.Scope().Lookup(name) != nil })
	if err != nil {
		setupFailed("tables: " + err.Error())
	}
	pr.Tables = tb
	return pr
}

func cmdFunc(args []string) {
	pr := setup()
	var names []string
	if len(args) == 1 && args[0] == "all" {
		for n := range pr.Funcs {
			names = append(names, n)
		}
		sort.Strings(names)
	} else {
		names = args
	}
	t0 := time.Now()
	var all []*Obl
	for _, n := range names {
		fn := pr.Funcs[n]
		if fn == nil {
			fmt.Println("no such function:", n)
			continue
		}
		var c *Ctx
		if relMode {
			c = pr.verifyRelational(fn)
		} else {
			c = pr.verifyFunction(fn)
		}
		for _, e := range c.errs {
			fmt.Printf("GENERR %s: %s\n", n, e)
		}
		all = append(all, c.obls...)
		if *flagVerbose {
			fmt.Printf("%s: %d obligations, prelude %d lines\n", n, len(c.obls), len(c.lines))
		}
	}
	if *flagOnly != "" {
		var sel []*Obl
		for _, o := range all {
			if strings.Contains(o.Name, *flagOnly) {
				sel = append(sel, o)
			}
		}
		all = sel
	}
	if *flagGenOnly {
		tot := 0
		for _, o := range all {
			tot += len(o.Goal)
		}
		fmt.Printf("generated %d obligations in %.1fs, goal bytes %d\n", len(all), time.Since(t0).Seconds(), tot)
		return
	}
	dischargeAll(all, *flagTimeout, *flagWorkers)
	if *flagVerbose {
		for _, o := range all {
			if ps := splitParts(o, true); ps != nil && o.TimeMS > 3000 {
				// re-run parts for timing diagnosis
				dischargeUnits(ps, *flagTimeout, *flagWorkers)
				for _, p := range ps {
					if p.TimeMS > 1000 {
						fmt.Printf("  slow part %s %s %dms %s: %s\n", p.Name, p.Status, p.TimeMS, p.Solver, clipStr(p.Goal, 300))
					}
				}
			}
		}
	}
	bad := 0
	for _, o := range all {
		if *flagDumpAll != "" && strings.Contains(o.Name, *flagDumpAll) {
			fmt.Println("dumped", dumpQuery(o, "/tmp/vcdump"))
		}
		if o.Status != "discharged" {
			bad++
			fmt.Printf("%-10s %s  [%s] line %d  %s  (%s %dms) %s\n", o.Status, o.Name, strings.Join(o.Tags, ","), o.Line, o.Text, o.Solver, o.TimeMS, o.Detail)
			if *flagDump != "" {
				dumpQuery(o, *flagDump)
			}
		} else if *flagVerbose {
			fmt.Printf("%-10s %s (%s %dms)\n", o.Status, o.Name, o.Solver, o.TimeMS)
		}
	}
	fmt.Printf("%d obligations, %d not discharged, %.1fs\n", len(all), bad, time.Since(t0).Seconds())
}

var relMode bool

func main() {
	flag.Parse()
	args := flag.Args()
	if len(args) == 0 {
		fmt.Fprintln(os.Stderr, "usage: vcgen [flags] func <name>... | check <prop> <tier>")
		os.Exit(2)
	}
	switch args[0] {
	case "func":
		cmdFunc(args[1:])
	case "rel":
		relMode = true
		cmdFunc(args[1:])
	case "ssa":
		cmdSSA(args[1:])
	case "check":
		if len(args) > 1 {
			checkProp = args[1]
		}
		cmdCheck(args[1:])
	case "baseline":
		cmdBaseline()
	case "expected":
		cmdExpected(args[1:])
	default:
		fmt.Fprintln(os.Stderr, "unknown command", args[0])
		os.Exit(2)
	}
}

func cmdSSA(args []string) {
	pr := setup()
	for _, n := range args {
		if f := pr.Funcs[n]; f != nil {
			f.WriteTo(os.Stdout)
		}
	}
}

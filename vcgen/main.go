package main

import (
	"flag"
	"fmt"
	"os"
	"sort"
	"strings"
	"time"
)

var (
	flagRepo      = flag.String("repo", "/repo", "repository under verification")
	flagContracts = flag.String("contracts", "", "contract file (default <repo>/verif_contracts.go)")
	flagTimeout   = flag.Int("timeout", 10, "per-solver timeout (s)")
	flagWorkers   = flag.Int("workers", 16, "parallel solver processes")
	flagDump      = flag.String("dump", "", "directory to dump failing queries")
	flagVerbose   = flag.Bool("v", false, "verbose")
	flagSplit     = flag.Bool("split", false, "diagnosis: split conjunctive goals into one obligation per conjunct")
	flagDumpAll   = flag.String("dumpname", "", "dump queries whose name contains this string to /tmp/vcdump")
	flagGenOnly   = flag.Bool("genonly", false, "generate obligations only")
	flagOnly      = flag.String("only", "", "only obligations whose name contains this string")
	flagOut       = flag.String("out", "", "directory for evidence/ and replays/ (default /verif)")
)

func setup() *Program {
	pr, err := loadProgram(*flagRepo)
	if err != nil {
		fmt.Fprintln(os.Stderr, "load:", err)
		os.Exit(2)
	}
	cp := *flagContracts
	if cp == "" {
		cp = *flagRepo + "/verif_contracts.go"
	}
	cs, err := loadContracts(cp)
	if err != nil {
		if os.IsNotExist(err) {
			cs = &Contracts{Specs: map[string]*Spec{}, Funcs: map[string]*FuncContract{}}
		} else {
			fmt.Fprintln(os.Stderr, "contracts:", err)
			os.Exit(2)
		}
	}
	pr.Cs = cs
	tb, err := loadTables(*flagRepo)
	if err != nil {
		fmt.Fprintln(os.Stderr, "tables:", err)
		os.Exit(2)
	}
	pr.Tables = tb
	return pr
}

func cmdFunc(args []string) {
	pr := setup()
	var names []string
	if len(args) == 1 && args[0] == "all" {
		for n := range pr.Funcs {
			names = append(names, n)
		}
		sort.Strings(names)
	} else {
		names = args
	}
	t0 := time.Now()
	var all []*Obl
	for _, n := range names {
		fn := pr.Funcs[n]
		if fn == nil {
			fmt.Println("no such function:", n)
			continue
		}
		var c *Ctx
		if relMode {
			c = pr.verifyRelational(fn)
		} else {
			c = pr.verifyFunction(fn)
		}
		for _, e := range c.errs {
			fmt.Printf("GENERR %s: %s\n", n, e)
		}
		all = append(all, c.obls...)
		if *flagVerbose {
			fmt.Printf("%s: %d obligations, prelude %d lines\n", n, len(c.obls), len(c.lines))
		}
	}
	if *flagOnly != "" {
		var sel []*Obl
		for _, o := range all {
			if strings.Contains(o.Name, *flagOnly) {
				sel = append(sel, o)
			}
		}
		all = sel
	}
	if *flagGenOnly {
		tot := 0
		for _, o := range all {
			tot += len(o.Goal)
		}
		fmt.Printf("generated %d obligations in %.1fs, goal bytes %d\n", len(all), time.Since(t0).Seconds(), tot)
		return
	}
	dischargeAll(all, *flagTimeout, *flagWorkers)
	if *flagVerbose {
		for _, o := range all {
			if ps := splitParts(o, true); ps != nil && o.TimeMS > 3000 {
				// re-run parts for timing diagnosis
				dischargeUnits(ps, *flagTimeout, *flagWorkers)
				for _, p := range ps {
					if p.TimeMS > 1000 {
						fmt.Printf("  slow part %s %s %dms %s: %s\n", p.Name, p.Status, p.TimeMS, p.Solver, clipStr(p.Goal, 300))
					}
				}
			}
		}
	}
	bad := 0
	for _, o := range all {
		if *flagDumpAll != "" && strings.Contains(o.Name, *flagDumpAll) {
			fmt.Println("dumped", dumpQuery(o, "/tmp/vcdump"))
		}
		if o.Status != "discharged" {
			bad++
			fmt.Printf("%-10s %s  [%s] line %d  %s  (%s %dms) %s\n", o.Status, o.Name, strings.Join(o.Tags, ","), o.Line, o.Text, o.Solver, o.TimeMS, o.Detail)
			if *flagDump != "" {
				dumpQuery(o, *flagDump)
			}
		} else if *flagVerbose {
			fmt.Printf("%-10s %s (%s %dms)\n", o.Status, o.Name, o.Solver, o.TimeMS)
		}
	}
	fmt.Printf("%d obligations, %d not discharged, %.1fs\n", len(all), bad, time.Since(t0).Seconds())
}

var relMode bool

func main() {
	flag.Parse()
	args := flag.Args()
	if len(args) == 0 {
		fmt.Fprintln(os.Stderr, "usage: vcgen [flags] func <name>... | check <prop> <tier>")
		os.Exit(2)
	}
	switch args[0] {
	case "func":
		cmdFunc(args[1:])
	case "rel":
		relMode = true
		cmdFunc(args[1:])
	case "ssa":
		cmdSSA(args[1:])
	case "check":
		cmdCheck(args[1:])
	case "baseline":
		cmdBaseline()
	case "expected":
		cmdExpected(args[1:])
	default:
		fmt.Fprintln(os.Stderr, "unknown command", args[0])
		os.Exit(2)
	}
}

func cmdSSA(args []string) {
	pr := setup()
	for _, n := range args {
		if f := pr.Funcs[n]; f != nil {
			f.WriteTo(os.Stdout)
		}
	}
}

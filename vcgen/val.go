package main

import (
	"fmt"
	"go/types"
	"strings"

	"golang.org/x/tools/go/ssa"
)

type Kind int

const (
	KInt Kind = iota
	KBool
	KStr
	KRef    // pointer to a heap struct (sqliState, sqliToken, h5State): C = [ref]
	KFunc   // function value: C = [id, recv]
	KSlice  // C = elem component arrays ..., len
	KStruct // struct value: Elems
	KTuple  // Elems
	KPtr    // pointer to a cell / field / element: P
	KMap    // global map
	KNone
)

type PtrKind int

const (
	PCell PtrKind = iota
	PField
	PTokVec // pointer to the [8]sqliToken array inside sqliState ref
	PGlobal
	PSliceElem
)

type Ptr struct {
	Kind  PtrKind
	Cell  *Cell
	Path  []int  // PCell: path of struct field indices inside the cell's value
	Elem  string // PCell holding an array/slice: element index term ("" = none)
	S     string // PField: struct name
	F     int    // PField: field index
	Ref   string // PField / PTokVec: object ref term
	Glob  *ssa.Global
	Slice *Val   // PSliceElem
	Idx   string // PSliceElem
}

type Val struct {
	K     Kind
	T     types.Type
	C     []string
	Elems []Val
	P     *Ptr
	SName string  // KRef: struct name
	Lit   *string // KStr: known literal content
	ElemT types.Type
	Glob  string // KSlice / KMap backed by global
	Byte  bool   // KInt of type uint8
}

type Cell struct {
	ID    int
	Name  string
	T     types.Type // element type (type of the variable)
	Alloc *ssa.Alloc
}

func intVal(t string) Val  { return Val{K: KInt, C: []string{t}} }
func boolVal(t string) Val { return Val{K: KBool, C: []string{t}} }

func isByteType(t types.Type) bool {
	if t == nil {
		return false
	}
	b, ok := t.Underlying().(*types.Basic)
	return ok && (b.Kind() == types.Uint8)
}

// smtSorts returns the SMT sorts of the flattened components of Go type t.
func (pr *Program) smtSorts(t types.Type) []string {
	switch u := t.Underlying().(type) {
	case *types.Basic:
		switch {
		case u.Info()&types.IsBoolean != 0:
			return []string{"Bool"}
		case u.Info()&types.IsInteger != 0:
			return []string{"Int"}
		case u.Info()&types.IsString != 0:
			return []string{"(Array Int Int)", "Int", "Int"}
		case u.Kind() == types.UntypedNil:
			return []string{"Int"}
		}
	case *types.Pointer:
		return []string{"Int"}
	case *types.Signature:
		return []string{"Int", "Int"}
	case *types.Slice:
		var out []string
		for _, s := range pr.smtSorts(u.Elem()) {
			out = append(out, "(Array Int "+s+")")
		}
		return append(out, "Int")
	case *types.Array:
		var out []string
		for _, s := range pr.smtSorts(u.Elem()) {
			out = append(out, "(Array Int "+s+")")
		}
		return append(out, "Int")
	case *types.Struct:
		if isBuilder(t) {
			return []string{"(Array Int Int)", "Int", "Int"}
		}
		var out []string
		for i := 0; i < u.NumFields(); i++ {
			out = append(out, pr.smtSorts(u.Field(i).Type())...)
		}
		return out
	case *types.Map:
		return []string{"Int"}
	}
	panic(fmt.Sprintf("smtSorts: unsupported type %s", t))
}

func isBuilder(t types.Type) bool {
	n, ok := t.(*types.Named)
	return ok && n.Obj().Pkg() != nil && n.Obj().Pkg().Path() == "strings" && n.Obj().Name() == "Builder"
}

func (pr *Program) heapStructOf(t types.Type) string {
	if n, ok := t.(*types.Named); ok {
		if n.Obj().Pkg() == pr.Pkg.Types {
			if _, ok := pr.Structs[n.Obj().Name()]; ok {
				return n.Obj().Name()
			}
		}
	}
	return ""
}

// mkVal builds a Val of Go type t from flattened component terms.
func (pr *Program) mkVal(t types.Type, comps []string) Val {
	v, rest := pr.mkValN(t, comps)
	if len(rest) != 0 {
		panic("mkVal: leftover components")
	}
	return v
}

func (pr *Program) mkValN(t types.Type, c []string) (Val, []string) {
	switch u := t.Underlying().(type) {
	case *types.Basic:
		switch {
		case u.Info()&types.IsBoolean != 0:
			return Val{K: KBool, T: t, C: c[:1]}, c[1:]
		case u.Info()&types.IsInteger != 0:
			return Val{K: KInt, T: t, C: c[:1], Byte: u.Kind() == types.Uint8}, c[1:]
		case u.Info()&types.IsString != 0:
			return Val{K: KStr, T: t, C: c[:3]}, c[3:]
		case u.Kind() == types.UntypedNil:
			return Val{K: KInt, T: t, C: c[:1]}, c[1:]
		}
	case *types.Pointer:
		if sn := pr.heapStructOf(u.Elem()); sn != "" {
			return Val{K: KRef, T: t, C: c[:1], SName: sn}, c[1:]
		}
		return Val{K: KInt, T: t, C: c[:1]}, c[1:]
	case *types.Signature:
		return Val{K: KFunc, T: t, C: c[:2]}, c[2:]
	case *types.Slice:
		n := len(pr.smtSorts(u.Elem())) + 1
		return Val{K: KSlice, T: t, C: c[:n], ElemT: u.Elem()}, c[n:]
	case *types.Array:
		n := len(pr.smtSorts(u.Elem())) + 1
		return Val{K: KSlice, T: t, C: c[:n], ElemT: u.Elem()}, c[n:]
	case *types.Struct:
		if isBuilder(t) {
			return Val{K: KStr, T: t, C: c[:3]}, c[3:]
		}
		v := Val{K: KStruct, T: t}
		for i := 0; i < u.NumFields(); i++ {
			var e Val
			e, c = pr.mkValN(u.Field(i).Type(), c)
			v.Elems = append(v.Elems, e)
		}
		return v, c
	case *types.Map:
		return Val{K: KMap, T: t, C: c[:1]}, c[1:]
	}
	panic(fmt.Sprintf("mkVal: unsupported type %s", t))
}

// flat returns the flattened components of v.
func flat(v Val) []string {
	switch v.K {
	case KStruct, KTuple:
		var out []string
		for _, e := range v.Elems {
			out = append(out, flat(e)...)
		}
		return out
	}
	return v.C
}

// zeroComps returns the zero value components for sorts.
func zeroTerm(sort string) string {
	switch {
	case sort == "Int":
		return "0"
	case sort == "Bool":
		return "false"
	case strings.HasPrefix(sort, "(Array Int "):
		inner := strings.TrimSuffix(strings.TrimPrefix(sort, "(Array Int "), ")")
		return "((as const " + sort + ") " + zeroTerm(inner) + ")"
	}
	panic("zeroTerm: " + sort)
}

func (pr *Program) zeroVal(t types.Type) Val {
	sorts := pr.smtSorts(t)
	comps := make([]string, len(sorts))
	for i, s := range sorts {
		comps[i] = zeroTerm(s)
	}
	if a, ok := t.Underlying().(*types.Array); ok {
		comps[len(comps)-1] = fmt.Sprint(a.Len())
	}
	return pr.mkVal(t, comps)
}

// ---- SMT term helpers

func sAnd(ts ...string) string {
	var out []string
	for _, t := range ts {
		if t == "true" || t == "" {
			continue
		}
		if t == "false" {
			return "false"
		}
		if strings.HasPrefix(t, "(and ") && len(t) < 20000 {
			out = append(out, splitSexp(t[5:len(t)-1])...)
			continue
		}
		out = append(out, t)
	}
	switch len(out) {
	case 0:
		return "true"
	case 1:
		return out[0]
	}
	return "(and " + strings.Join(out, " ") + ")"
}

func sOr(ts ...string) string {
	var out []string
	for _, t := range ts {
		if t == "false" || t == "" {
			continue
		}
		if t == "true" {
			return "true"
		}
		out = append(out, t)
	}
	switch len(out) {
	case 0:
		return "false"
	case 1:
		return out[0]
	}
	return "(or " + strings.Join(out, " ") + ")"
}

func sNot(t string) string {
	switch t {
	case "true":
		return "false"
	case "false":
		return "true"
	}
	if strings.HasPrefix(t, "(not ") && strings.HasSuffix(t, ")") {
		inner := t[5 : len(t)-1]
		if balanced(inner) {
			return inner
		}
	}
	return "(not " + t + ")"
}

func balanced(s string) bool {
	d := 0
	for i := 0; i < len(s); i++ {
		switch s[i] {
		case '(':
			d++
		case ')':
			d--
			if d < 0 {
				return false
			}
		case ' ':
			if d == 0 {
				return false
			}
		}
	}
	return d == 0
}

func sImp(a, b string) string {
	if a == "true" {
		return b
	}
	if b == "true" || a == "false" {
		return "true"
	}
	return "(=> " + a + " " + b + ")"
}

func sIte(c, a, b string) string {
	if a == b {
		return a
	}
	if c == "true" {
		return a
	}
	if c == "false" {
		return b
	}
	return "(ite " + c + " " + a + " " + b + ")"
}

func sEq(a, b string) string {
	if a == b {
		return "true"
	}
	return "(= " + a + " " + b + ")"
}

func sNum(n int64) string {
	if n < 0 {
		return fmt.Sprintf("(- %d)", -n)
	}
	return fmt.Sprint(n)
}

func sAdd(a, b string) string {
	if b == "0" {
		return a
	}
	if a == "0" {
		return b
	}
	return "(+ " + a + " " + b + ")"
}

func sSub(a, b string) string {
	if b == "0" {
		return a
	}
	return "(- " + a + " " + b + ")"
}

func sSel(a, i string) string { return "(select " + a + " " + i + ")" }
func sStore(a, i, v string) string {
	return "(store " + a + " " + i + " " + v + ")"
}

const minInt64 = "(- 9223372036854775808)"
const maxInt64 = "9223372036854775807"

func inInt64(t string) string {
	return "(and (<= " + minInt64 + " " + t + ") (<= " + t + " " + maxInt64 + "))"
}

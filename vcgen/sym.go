package main

import (
	"fmt"
	"os"
	"go/ast"
	"go/constant"
	"go/token"
	"go/types"
	"sort"
	"strings"

	"golang.org/x/tools/go/ssa"
)

// ---------------------------------------------------------------- obligations, context

type Obl struct {
	Name   string   `json:"name"`
	Func   string   `json:"func"`
	Kind   string   `json:"kind"`
	Tags   []string `json:"tags,omitempty"`
	Goal   string   `json:"-"`
	Prefix int      `json:"-"`
	Line   int      `json:"line,omitempty"`
	Text   string   `json:"text,omitempty"`
	Status string   `json:"status,omitempty"` // discharged | failed | unknown
	Solver string   `json:"solver,omitempty"`
	TimeMS int      `json:"time_ms,omitempty"`
	Detail string   `json:"detail,omitempty"`
	Canary bool     `json:"canary,omitempty"` // must NOT be provable
	ctx    *Ctx
	failedPart *Obl
	MaxPartMS  int    `json:"-"`
	SlowPart   string `json:"-"`
	Retried    bool   `json:"retried,omitempty"`
}

type Ctx struct {
	pr       *Program
	top      *ssa.Function
	topName  string
	lines    []string
	obls     []*Obl
	ctr      int
	declared map[string]bool
	strLits  map[string]Val
	occ      map[string]int
	errs     []string
	heapKeys []string
	heapSort map[string]string
	assumed  map[string]bool
	frameSk  string
	ufuns    map[string]bool
	usedAssumed map[string]bool // external models used
	cellCtr  int
	allocCtr int
	topFrame *Frame
	storeDefs map[string]storeDef
	nonnil   map[string]bool
	caseCalls map[string][][2]Val
	rel      *Rel   // mode R (relational) bookkeeping, nil otherwise
	copyTag  string // suffix of the input heap names of the copy being executed
}

type State struct {
	cells map[*Cell]Val
	heap  map[string]string
	cost  string // ghost step counter since function entry (mode K)
}

func (s *State) clone() *State {
	n := &State{cells: make(map[*Cell]Val, len(s.cells)), heap: make(map[string]string, len(s.heap)), cost: s.cost}
	for k, v := range s.cells {
		n.cells[k] = v
	}
	for k, v := range s.heap {
		n.heap[k] = v
	}
	return n
}

func (c *Ctx) fresh(hint string) string {
	c.ctr++
	return fmt.Sprintf("%s_%d", sanitize(hint), c.ctr)
}

func sanitize(s string) string {
	var b strings.Builder
	for i := 0; i < len(s); i++ {
		ch := s[i]
		if (ch >= 'a' && ch <= 'z') || (ch >= 'A' && ch <= 'Z') || (ch >= '0' && ch <= '9') || ch == '_' {
			b.WriteByte(ch)
		} else {
			b.WriteByte('_')
		}
	}
	if b.Len() == 0 {
		return "x"
	}
	return b.String()
}

func (c *Ctx) emit(line string) { c.lines = append(c.lines, line) }

func (c *Ctx) declare(name, sort string) string {
	if !c.declared[name] {
		c.declared[name] = true
		c.emit("(declare-const " + name + " " + sort + ")")
	}
	return name
}

func isAtom(t string) bool {
	return !strings.ContainsAny(t, " (")
}

// define names a term (unless it is already atomic).
// storeDefs remembers definitions of the form name := (store base idx val) so that a read of the
// same index resolves syntactically (keeps E-matching patterns applicable to the stored value).
type storeDef struct{ base, idx, val string }

func (c *Ctx) selectHeap(arr, ref string) string {
	cur := arr
	for depth := 0; depth < 64; depth++ {
		sd, ok := c.storeDefs[cur]
		if !ok {
			break
		}
		if sd.idx == ref {
			return sd.val
		}
		// different syntactic index: only skip when both are provably distinct
		if !distinctRefs(sd.idx, ref) {
			break
		}
		cur = sd.base
	}
	return sSel(cur, ref)
}

// distinctRefs: two object references that cannot be equal (different literal allocations, or
// slots i != j of the same token vector).
func distinctRefs(a, b string) bool {
	if a == b {
		return false
	}
	lit := func(t string) bool {
		return isPosLiteral(t) || (strings.HasPrefix(t, "(- ") && isPosLiteral(strings.TrimSuffix(t[3:], ")")))
	}
	if lit(a) && lit(b) {
		return true
	}
	// (+ (* 8 s) i) vs (+ (* 8 s) j) with literal i != j ; or (* 8 s) itself (= slot 0)
	slot := func(t string) (string, string, bool) {
		if strings.HasPrefix(t, "(* 8 ") {
			return t, "0", true
		}
		if strings.HasPrefix(t, "(+ (* 8 ") && strings.HasSuffix(t, ")") {
			parts := splitSexp(t[3 : len(t)-1])
			if len(parts) == 2 && isPosLiteral(parts[1]) {
				return parts[0], parts[1], true
			}
		}
		return "", "", false
	}
	ba, ia, oka := slot(a)
	bb, ib, okb := slot(b)
	if oka && okb && ba == bb && ia != ib {
		return true
	}
	// a fresh local token (negative literal) vs a token-vector slot of a positive state reference
	if (lit(a) && strings.HasPrefix(a, "(- ") && okb) || (lit(b) && strings.HasPrefix(b, "(- ") && oka) {
		return true
	}
	return false
}

func (c *Ctx) define(hint, sort, term string) string {
	if isAtom(term) {
		return term
	}
	if sort == "Int" {
		if strings.HasPrefix(term, "(- ") && isAtom(term[3:len(term)-1]) {
			return term
		}
	}
	n := c.fresh(hint)
	c.emit("(define-fun " + n + " () " + sort + " " + term + ")")
	if strings.HasPrefix(term, "(store ") {
		parts := splitSexp(term[7 : len(term)-1])
		if len(parts) == 3 {
			if c.storeDefs == nil {
				c.storeDefs = map[string]storeDef{}
			}
			c.storeDefs[n] = storeDef{parts[0], parts[1], parts[2]}
		}
	}
	return n
}

func (c *Ctx) assume(term string) {
	if term == "true" {
		return
	}
	c.emit("(assert " + term + ")")
}

func (c *Ctx) assumeOnce(term string) {
	if c.assumed[term] {
		return
	}
	c.assumed[term] = true
	c.assume(term)
}

func (c *Ctx) errorf(format string, args ...interface{}) {
	if os.Getenv("VCGEN_PANIC") != "" {
		panic(fmt.Sprintf(format, args...))
	}
	c.errs = append(c.errs, fmt.Sprintf(format, args...))
}

func (c *Ctx) oblige(name, kind string, tags []string, reach, goal string, line int, text string) *Obl {
	c.occ[name]++
	full := fmt.Sprintf("%s#%d", name, c.occ[name])
	if *flagSplit && strings.HasPrefix(goal, "(and ") && kind != "canary" {
		var last *Obl
		for i, part := range splitSexp(goal[5 : len(goal)-1]) {
			o := &Obl{Name: fmt.Sprintf("%s.%d", full, i+1), Func: c.topName, Kind: kind, Tags: tags, Goal: sImp(reach, part), Prefix: len(c.lines), Line: line, Text: clipStr(part, 200), ctx: c}
			c.obls = append(c.obls, o)
			last = o
		}
		return last
	}
	g := sImp(reach, goal)
	o := &Obl{Name: full, Func: c.topName, Kind: kind, Tags: tags, Goal: g, Prefix: len(c.lines), Line: line, Text: text, ctx: c}
	c.obls = append(c.obls, o)
	return o
}

func clipStr(s string, n int) string {
	if len(s) > n {
		return s[:n] + "…"
	}
	return s
}

func heapKey(s, f string, k int) string { return fmt.Sprintf("%s.%s.%d", s, f, k) }

// tick adds n steps to the ghost cost counter.
func (c *Ctx) tick(st *State, n string) {
	if st.cost == "" {
		st.cost = "0"
	}
	st.cost = c.define("cost", "Int", lAdd(st.cost, n))
}

func (c *Ctx) initHeap() *State {
	st := &State{cells: map[*Cell]Val{}, heap: map[string]string{}, cost: "0"}
	var snames []string
	for n := range c.pr.Structs {
		snames = append(snames, n)
	}
	sort.Strings(snames)
	for _, sn := range snames {
		si := c.pr.Structs[sn]
		for _, f := range si.Fields {
			if _, isArr := f.Type().Underlying().(*types.Array); isArr {
				continue
			}
			for k, srt := range c.pr.smtSorts(f.Type()) {
				key := heapKey(sn, f.Name(), k)
				name := "H0_" + sn + "_" + f.Name() + "_" + fmt.Sprint(k) + c.copyTag
				c.declare(name, "(Array Int "+srt+")")
				st.heap[key] = name
				if _, dup := c.heapSort[key]; !dup {
					c.heapKeys = append(c.heapKeys, key)
				}
				c.heapSort[key] = srt
			}
		}
	}
	return st
}

// ---------------------------------------------------------------- frames

type LoopInfo struct {
	header  *ssa.BasicBlock
	blocks  map[*ssa.BasicBlock]bool
	ordinal int
	lc      *LoopContract
	dec0    []string
	hstate  *State
	hreach  string
	relKey  string
}

type Frame struct {
	c        *Ctx
	fn       *ssa.Function
	name     string
	path     string // obligation name prefix
	params   map[string]Val
	paramVs  map[*ssa.Parameter]Val
	vals     map[ssa.Value]Val
	cells    map[*ssa.Alloc]*Cell
	entry    *State
	contract *FuncContract
	top      bool
	stack    []string
	loops    map[*ssa.BasicBlock]*LoopInfo
	// per-run
	out      map[*ssa.BasicBlock]*State
	reach    map[*ssa.BasicBlock]string
	succCond map[*ssa.BasicBlock][]string
	rets     []retInfo
	safetyTags []string
	curBlock *ssa.BasicBlock
	curLoop  *LoopInfo
	curState *State
	lastIdx  string
	havocLog []havocRec
	dispatchReach string // reach of the enclosing dynamic dispatch (before the target guard), "" outside
}

type retInfo struct {
	reach string
	st    *State
	res   []Val
}

func (c *Ctx) safetyTagsFor(fn *ssa.Function) []string {
	file := c.pr.fileOf(fn)
	if strings.HasPrefix(file, "sqli") {
		return []string{"C01"}
	}
	return []string{"C02"}
}

func (c *Ctx) newFrame(fn *ssa.Function, top bool, path string, stack []string) *Frame {
	fr := &Frame{
		c: c, fn: fn, name: c.pr.funcName(fn), path: path, top: top,
		params: map[string]Val{}, paramVs: map[*ssa.Parameter]Val{},
		vals: map[ssa.Value]Val{}, cells: map[*ssa.Alloc]*Cell{},
		stack: append(append([]string{}, stack...), c.pr.funcName(fn)),
	}
	fr.contract = c.pr.Cs.Funcs[fr.name]
	fr.safetyTags = c.safetyTagsFor(c.top)
	return fr
}

func (fr *Frame) oname(kind, what string) string {
	if fr.path == "" {
		return fr.name + "/" + kind + "/" + what
	}
	return fr.path + "/" + kind + "/" + what
}

// ---------------------------------------------------------------- loop analysis

func (fr *Frame) analyzeLoops() {
	fr.loops = map[*ssa.BasicBlock]*LoopInfo{}
	fn := fr.fn
	for _, b := range fn.Blocks {
		for _, s := range b.Succs {
			if s.Dominates(b) {
				li := fr.loops[s]
				if li == nil {
					li = &LoopInfo{header: s, blocks: map[*ssa.BasicBlock]bool{s: true}}
					fr.loops[s] = li
				}
				// natural loop: nodes reaching b without passing s
				var stack []*ssa.BasicBlock
				if !li.blocks[b] {
					li.blocks[b] = true
					stack = append(stack, b)
				}
				for len(stack) > 0 {
					x := stack[len(stack)-1]
					stack = stack[:len(stack)-1]
					for _, p := range x.Preds {
						if !li.blocks[p] {
							li.blocks[p] = true
							stack = append(stack, p)
						}
					}
				}
			}
		}
	}
	// ordinals by minimal source position
	type hp struct {
		h   *ssa.BasicBlock
		pos token.Pos
	}
	var hs []hp
	for h, li := range fr.loops {
		min := token.Pos(1 << 40)
		for b := range li.blocks {
			for _, in := range b.Instrs {
				if p := in.Pos(); p.IsValid() && p < min {
					min = p
				}
			}
		}
		hs = append(hs, hp{h, min})
	}
	sort.Slice(hs, func(i, j int) bool {
		if hs[i].pos != hs[j].pos {
			return hs[i].pos < hs[j].pos
		}
		return hs[i].h.Index < hs[j].h.Index
	})
	for i, x := range hs {
		li := fr.loops[x.h]
		li.ordinal = i + 1
		if fr.contract != nil {
			li.lc = fr.contract.Loops[i+1]
		}
	}
}

func isBackEdge(from, to *ssa.BasicBlock) bool { return to.Dominates(from) }

func (fr *Frame) rpo() []*ssa.BasicBlock {
	seen := map[*ssa.BasicBlock]bool{}
	var post []*ssa.BasicBlock
	var dfs func(b *ssa.BasicBlock)
	dfs = func(b *ssa.BasicBlock) {
		seen[b] = true
		for _, s := range b.Succs {
			if isBackEdge(b, s) || seen[s] {
				continue
			}
			dfs(s)
		}
		post = append(post, b)
	}
	dfs(fr.fn.Blocks[0])
	for i, j := 0, len(post)-1; i < j; i, j = i+1, j-1 {
		post[i], post[j] = post[j], post[i]
	}
	return post
}

// ---------------------------------------------------------------- running a body

func (fr *Frame) freshVal(t types.Type, hint string) Val {
	sorts := fr.c.pr.smtSorts(t)
	comps := make([]string, len(sorts))
	for i, s := range sorts {
		comps[i] = fr.c.declare(fr.c.fresh(hint), s)
	}
	v := fr.c.pr.mkVal(t, comps)
	fr.assumeRange(v)
	return v
}

func (fr *Frame) assumeRange(v Val) {
	c := fr.c
	switch v.K {
	case KInt:
		if v.Byte {
			c.assumeOnce("(and (<= 0 " + v.C[0] + ") (<= " + v.C[0] + " 255))")
		} else if v.T != nil {
			if b, ok := v.T.Underlying().(*types.Basic); ok && b.Info()&types.IsInteger != 0 {
				c.assumeOnce(inInt64(v.C[0]))
			}
		}
	case KStr:
		c.assumeOnce("(and (<= 0 " + v.C[2] + ") (<= 0 " + v.C[1] + ") (<= (+ " + v.C[1] + " " + v.C[2] + ") 1152921504606846976))")
	case KSlice:
		n := v.C[len(v.C)-1]
		c.assumeOnce("(and (<= 0 " + n + ") (<= " + n + " 1152921504606846976))")
	case KStruct, KTuple:
		for _, e := range v.Elems {
			fr.assumeRange(e)
		}
	}
}

type predIn struct {
	st   *State
	cond string
}

func (fr *Frame) mergeStates(ins []predIn, hint string) (*State, string) {
	c := fr.c
	var live []predIn
	for _, p := range ins {
		if p.cond != "false" {
			live = append(live, p)
		}
	}
	if len(live) == 0 {
		return &State{cells: map[*Cell]Val{}, heap: map[string]string{}, cost: "0"}, "false"
	}
	if len(live) == 1 {
		return live[0].st.clone(), live[0].cond
	}
	conds := make([]string, len(live))
	for i, p := range live {
		conds[i] = c.define("ec", "Bool", p.cond)
	}
	reach := c.define("r_"+hint, "Bool", sOr(conds...))
	out := &State{cells: map[*Cell]Val{}, heap: map[string]string{}}
	mergeTerm := func(sort string, ts []string) string {
		same := true
		for _, t := range ts[1:] {
			if t != ts[0] {
				same = false
			}
		}
		if same {
			return ts[0]
		}
		term := ts[len(ts)-1]
		for i := len(ts) - 2; i >= 0; i-- {
			term = sIte(conds[i], ts[i], term)
		}
		return c.define("m", sort, term)
	}
	for _, key := range c.heapKeys {
		ts := make([]string, len(live))
		for i, p := range live {
			ts[i] = p.st.heap[key]
		}
		out.heap[key] = mergeTerm("(Array Int "+c.heapSort[key]+")", ts)
	}
	{
		ts := make([]string, len(live))
		for i, p := range live {
			ts[i] = p.st.cost
			if ts[i] == "" {
				ts[i] = "0"
			}
		}
		out.cost = mergeTerm("Int", ts)
	}
	for cell, v0 := range live[0].st.cells {
		all := true
		vs := make([]Val, len(live))
		vs[0] = v0
		for i := 1; i < len(live); i++ {
			v, ok := live[i].st.cells[cell]
			if !ok {
				all = false
				break
			}
			vs[i] = v
		}
		if !all {
			continue
		}
		out.cells[cell] = fr.mergeVals(vs, mergeTerm)
	}
	return out, reach
}

func (fr *Frame) mergeVals(vs []Val, mergeTerm func(sort string, ts []string) string) Val {
	v0 := vs[0]
	// pointers held in cells (e.g. the spilled receiver) must agree
	if v0.K == KPtr {
		return v0
	}
	fl := make([][]string, len(vs))
	for i, v := range vs {
		fl[i] = flat(v)
	}
	n := len(fl[0])
	for _, f := range fl {
		if len(f) != n {
			// incompatible shapes (should not happen)
			return v0
		}
	}
	var sorts []string
	if v0.T != nil {
		sorts = fr.c.pr.smtSorts(v0.T)
	}
	comps := make([]string, n)
	for k := 0; k < n; k++ {
		ts := make([]string, len(vs))
		for i := range vs {
			ts[i] = fl[i][k]
		}
		srt := "Int"
		if sorts != nil && k < len(sorts) {
			srt = sorts[k]
		} else if v0.K == KBool {
			srt = "Bool"
		}
		comps[k] = mergeTerm(srt, ts)
	}
	if v0.T != nil {
		nv := fr.c.pr.mkVal(v0.T, comps)
		// keep literal info if all equal
		if v0.Lit != nil {
			same := true
			for _, v := range vs[1:] {
				if v.Lit == nil || *v.Lit != *v0.Lit {
					same = false
				}
			}
			if same {
				nv.Lit = v0.Lit
			}
		}
		if v0.K == KSlice {
			nv.Glob = v0.Glob
		}
		return nv
	}
	nv := v0
	nv.C = comps
	return nv
}

// run executes the body; returns per-return information in fr.rets.
func (fr *Frame) run(st0 *State, reach0 string) {
	fr.analyzeLoops()
	fr.out = map[*ssa.BasicBlock]*State{}
	fr.reach = map[*ssa.BasicBlock]string{}
	fr.succCond = map[*ssa.BasicBlock][]string{}
	c := fr.c
	for _, b := range fr.rpo() {
		var st *State
		var reach string
		if b == fr.fn.Blocks[0] {
			st, reach = st0.clone(), reach0
		} else {
			var ins []predIn
			for _, p := range b.Preds {
				if isBackEdge(p, b) {
					continue
				}
				ps, ok := fr.out[p]
				if !ok {
					continue
				}
				cond := "true"
				for i, s := range p.Succs {
					if s == b {
						cond = fr.succCond[p][i]
						if len(p.Succs) == 2 && p.Succs[0] == p.Succs[1] {
							cond = "true"
						}
						break
					}
				}
				ins = append(ins, predIn{ps, sAnd(fr.reach[p], cond)})
			}
			st, reach = fr.mergeStates(ins, fmt.Sprintf("b%d", b.Index))
			if reach == "false" {
				continue // statically unreachable (e.g. constant-folded branch of an inlined callee)
			}
		}
		fr.curBlock = b
		if li := fr.loops[b]; li != nil {
			st, reach = fr.enterLoop(li, st, reach)
		}
		fr.reach[b] = reach
		if c.rel != nil && c.rel.inB() && fr.top {
			c.rel.blockLemma(fr, b, reach)
		}
		fr.execBlock(b, st, reach)
		fr.out[b] = st
		// back edges
		for i, s := range b.Succs {
			if isBackEdge(b, s) {
				li := fr.loops[s]
				if li != nil && li.hstate != nil {
					cond := sAnd(reach, fr.succCond[b][i])
					be := st.clone()
					c.tick(be, "1")
					fr.backEdge(li, be, cond)
				}
			}
		}
	}
	_ = c
}

func (fr *Frame) invEnv(st *State) *Env {
	return &Env{fr: fr, cur: st, old: fr.entry, useCells: true, vars: map[string]Val{}, loop: fr.curLoop}
}

func (fr *Frame) enterLoop(li *LoopInfo, st *State, reach string) (*State, string) {
	c := fr.c
	fr.curLoop = li
	defer func() { fr.curLoop = nil }()
	reach = c.define("r_loop", "Bool", reach)
	lname := fmt.Sprintf("loop%d", li.ordinal)
	if li.lc != nil {
		for i, inv := range li.lc.Invariants {
			g := fr.evalBool(inv.E, fr.invEnv(st), inv)
			c.oblige(fr.oname(lname+"/invariant-entry", clauseLabel(inv, i)), "invariant-entry", fr.tagsFor(inv), reach, g, inv.Line, inv.Text)
		}
	}
	// havoc
	ms := fr.loopMods(li)
	ns := st.clone()
	var cellList []*ssa.Alloc
	for a := range ms.cells {
		cellList = append(cellList, a)
	}
	sort.Slice(cellList, func(i, j int) bool { return cellList[i].Pos() < cellList[j].Pos() })
	for _, a := range cellList {
		cell := fr.cells[a]
		if cell == nil {
			continue
		}
		old, ok := ns.cells[cell]
		if !ok {
			continue
		}
		if old.K == KPtr {
			continue
		}
		nv := fr.freshVal(cell.T, "hv_"+cell.Name)
		ns.cells[cell] = nv
	}
	var hk []string
	for k := range ms.heap {
		hk = append(hk, k)
	}
	sort.Strings(hk)
	relRefs := map[string][]string{}
	for _, sf := range hk {
		// pointwise when every write target is a loop-invariant reference
		var refs []string
		pointwise := true
		seen := map[string]bool{}
		for _, re := range ms.heap[sf] {
			ts, ok := fr.stableRefs(re, ms, st)
			if !ok {
				pointwise = false
				break
			}
			for _, t := range ts {
				if !seen[t] {
					seen[t] = true
					refs = append(refs, t)
				}
			}
		}
		for _, key := range c.heapKeys {
			if !strings.HasPrefix(key, sf+".") {
				continue
			}
			if pointwise && len(refs) <= 12 {
				relRefs[sf] = refs
			} else {
				relRefs[sf] = nil
			}
			if pointwise && len(refs) <= 12 {
				term := ns.heap[key]
				for _, r := range refs {
					fv := c.declare(c.fresh("hp_"+key), c.heapSort[key])
					term = sStore(term, r, fv)
				}
				ns.heap[key] = c.define("hh_"+key, "(Array Int "+c.heapSort[key]+")", term)
			} else {
				ns.heap[key] = c.declare(c.fresh("hh_"+key), "(Array Int "+c.heapSort[key]+")")
			}
		}
	}
	ns.cost = c.declare(c.fresh("hcost"), "Int")
	c.assume("(<= 0 " + ns.cost + ")")
	li.hstate = ns
	li.hreach = reach
	if li.lc != nil {
		for _, inv := range li.lc.Invariants {
			if c.rel != nil && !relKeeps(inv) {
				continue
			}
			g := fr.evalBool(inv.E, fr.invEnv(ns), inv)
			c.assume(sImp(reach, g))
		}
		for _, d := range li.lc.Decreases {
			v := fr.evalExpr(d, fr.invEnv(ns))
			li.dec0 = append(li.dec0, c.define("dec0", "Int", v.C[0]))
		}
		for _, u := range li.lc.Unfold {
			fr.unfoldHint(u, fr.invEnv(ns), reach)
		}
	}
	if c.rel != nil {
		c.rel.loopHead(fr, li, st, reach, ns, cellList, relRefs)
	}
	return ns, reach
}

func clauseLabel(cl *Clause, i int) string {
	if cl.Label != "" {
		return cl.Label
	}
	return fmt.Sprintf("%d", i+1)
}

// tagsFor: an untagged clause supports every property the function's own contract mentions
// (its proofs are what the tagged clauses of the same function rest on), plus the safety property.
func (fr *Frame) tagsFor(cl *Clause) []string {
	if len(cl.Tags) > 0 {
		return cl.Tags
	}
	if fr.c.topFrame != nil {
		return fr.c.topFrame.allTags()
	}
	return fr.safetyTags
}

func (fr *Frame) backEdge(li *LoopInfo, st *State, cond string) {
	c := fr.c
	fr.curLoop = li
	defer func() { fr.curLoop = nil }()
	lname := fmt.Sprintf("loop%d", li.ordinal)
	if c.rel != nil {
		c.rel.backEdge(fr, li, st, cond)
	}
	if li.lc == nil {
		c.oblige(fr.oname(lname+"/decreases", "missing"), "decreases", fr.safetyTags, cond, "false", fr.c.pr.lineOf(li.header.Instrs[0].Pos()), "loop without contract")
		return
	}
	for i, inv := range li.lc.Invariants {
		g := fr.evalBool(inv.E, fr.invEnv(st), inv)
		c.oblige(fr.oname(lname+"/invariant-step", clauseLabel(inv, i)), "invariant-step", fr.tagsFor(inv), cond, g, inv.Line, inv.Text)
	}
	for i, sc := range li.lc.Steps {
		g := fr.evalBool(sc.E, fr.invEnv(st), sc)
		c.oblige(fr.oname(lname+"/step", clauseLabel(sc, i)), "ensures", fr.tagsFor(sc), cond, g, sc.Line, sc.Text)
	}
	if len(li.lc.Decreases) == 0 {
		c.oblige(fr.oname(lname+"/decreases", "missing"), "decreases", fr.safetyTags, cond, "false", 0, "loop without decreases clause")
		return
	}
	var cur []string
	for _, d := range li.lc.Decreases {
		cur = append(cur, fr.evalExpr(d, fr.invEnv(st)).C[0])
	}
	// lexicographic decrease, every component bounded below by 0 at the header
	var alts []string
	for i := range cur {
		var conj []string
		for j := 0; j < i; j++ {
			conj = append(conj, sEq(cur[j], li.dec0[j]))
		}
		conj = append(conj, "(< "+cur[i]+" "+li.dec0[i]+")", "(<= 0 "+li.dec0[i]+")")
		alts = append(alts, sAnd(conj...))
	}
	tags := fr.safetyTags
	line := 0
	text := ""
	if li.lc.DecClause != nil {
		if len(li.lc.DecClause.Tags) > 0 {
			tags = li.lc.DecClause.Tags
		}
		line = li.lc.DecClause.Line
		text = li.lc.DecClause.Text
	}
	// report the source line of the back edge (continue / end of body)
	if fr.curBlock != nil {
		for i := len(fr.curBlock.Instrs) - 1; i >= 0; i-- {
			if p := fr.curBlock.Instrs[i].Pos(); p.IsValid() {
				line = c.pr.lineOf(p)
				break
			}
		}
	}
	c.oblige(fr.oname(lname+"/decreases", "variant"), "decreases", tags, cond, sOr(alts...), line, text)
}

// ---------------------------------------------------------------- instructions

func (fr *Frame) get(v ssa.Value) Val {
	switch x := v.(type) {
	case *ssa.Const:
		return fr.constVal(x)
	case *ssa.Parameter:
		return fr.paramVs[x]
	case *ssa.Global:
		return Val{K: KPtr, T: x.Type(), P: &Ptr{Kind: PGlobal, Glob: x}}
	case *ssa.Function:
		id := fr.c.pr.FuncIDs[x]
		if id == 0 {
			// external function value
			fr.c.errorf("%s: function value %s not in package", fr.name, x.Name())
		}
		return Val{K: KFunc, T: x.Type(), C: []string{fmt.Sprint(id), "0"}}
	case *ssa.Builtin:
		return Val{K: KNone}
	}
	if val, ok := fr.vals[v]; ok {
		return val
	}
	fr.c.errorf("%s: value %s (%T) not defined", fr.name, v.Name(), v)
	return Val{K: KInt, C: []string{"0"}}
}

func (fr *Frame) constVal(k *ssa.Const) Val {
	c := fr.c
	t := k.Type()
	if k.Value == nil {
		// nil / zero value
		switch u := t.Underlying().(type) {
		case *types.Struct:
			_ = u
			return Val{K: KStruct, T: t, C: nil, Glob: "zero"}
		case *types.Pointer:
			if sn := c.pr.heapStructOf(u.Elem()); sn != "" {
				return Val{K: KRef, T: t, C: []string{"0"}, SName: sn}
			}
			return Val{K: KInt, T: t, C: []string{"0"}}
		case *types.Slice:
			return c.pr.zeroVal(t)
		case *types.Signature:
			return Val{K: KFunc, T: t, C: []string{"0", "0"}}
		case *types.Basic:
			if u.Info()&types.IsString != 0 {
				return c.strLit("")
			}
			return Val{K: KInt, T: t, C: []string{"0"}}
		}
		return Val{K: KInt, T: t, C: []string{"0"}}
	}
	switch k.Value.Kind() {
	case constant.Bool:
		if constant.BoolVal(k.Value) {
			return Val{K: KBool, T: t, C: []string{"true"}}
		}
		return Val{K: KBool, T: t, C: []string{"false"}}
	case constant.Int:
		n, _ := constant.Int64Val(k.Value)
		return Val{K: KInt, T: t, C: []string{sNum(n)}, Byte: isByteType(t)}
	case constant.String:
		v := c.strLit(constant.StringVal(k.Value))
		v.T = t
		return v
	}
	c.errorf("unsupported constant %s", k)
	return Val{K: KInt, C: []string{"0"}}
}

func (c *Ctx) strLit(s string) Val {
	if v, ok := c.strLits[s]; ok {
		return v
	}
	term := "((as const (Array Int Int)) 0)"
	for i := 0; i < len(s); i++ {
		term = sStore(term, fmt.Sprint(i), fmt.Sprint(int(s[i])))
	}
	name := c.define("lit", "(Array Int Int)", term)
	lit := s
	v := Val{K: KStr, T: types.Typ[types.String], C: []string{name, "0", fmt.Sprint(len(s))}, Lit: &lit}
	c.strLits[s] = v
	return v
}

func (fr *Frame) execBlock(b *ssa.BasicBlock, st *State, reach string) {
	fr.curState = st
	for _, in := range b.Instrs {
		fr.execInstr(in, st, reach)
	}
}

func (fr *Frame) srcText(pos token.Pos, want func(ast.Node) bool) string {
	return fr.c.pr.exprTextAt(pos, want)
}

func isIndexExpr(n ast.Node) bool  { _, ok := n.(*ast.IndexExpr); return ok }
func isSliceExpr(n ast.Node) bool  { _, ok := n.(*ast.SliceExpr); return ok }
func isBinaryExpr(n ast.Node) bool {
	switch n.(type) {
	case *ast.BinaryExpr, *ast.IncDecStmt, *ast.AssignStmt:
		return true
	}
	return false
}
func isAnyExpr(n ast.Node) bool    { _, ok := n.(ast.Expr); return ok }

func (fr *Frame) safety(kind, what string, reach, goal string, pos token.Pos) {
	if what == "" {
		what = "?"
	}
	fr.c.oblige(fr.oname(kind, what), kind, fr.safetyTags, reach, goal, fr.c.pr.lineOf(pos), what)
}

func (fr *Frame) nilCheck(ref Val, reach string, pos token.Pos, what string) {
	if ref.K != KRef {
		return
	}
	t := ref.C[0]
	// refs of the form (+ (* 8 s) i) with s>0 or fresh allocs are trivially non-nil; still emit cheaply
	if strings.HasPrefix(t, "(- ") || isPosLiteral(t) || fr.c.nonnil[t] {
		return
	}
	fr.safety("nil", what, reach, sNot(sEq(t, "0")), pos)
}

func isPosLiteral(t string) bool {
	if t == "" || t == "0" {
		return false
	}
	for i := 0; i < len(t); i++ {
		if t[i] < '0' || t[i] > '9' {
			return false
		}
	}
	return true
}

func (fr *Frame) loadField(st *State, sn string, fi int, ref string) Val {
	c := fr.c
	f := c.pr.Structs[sn].Fields[fi]
	sorts := c.pr.smtSorts(f.Type())
	comps := make([]string, len(sorts))
	for k := range sorts {
		comps[k] = c.selectHeap(st.heap[heapKey(sn, f.Name(), k)], ref)
	}
	v := c.pr.mkVal(f.Type(), comps)
	fr.assumeRange(v)
	return v
}

func (fr *Frame) storeField(st *State, sn string, fi int, ref string, v Val) {
	c := fr.c
	f := c.pr.Structs[sn].Fields[fi]
	comps := flat(v)
	sorts := c.pr.smtSorts(f.Type())
	if len(comps) != len(sorts) {
		c.errorf("%s: store to %s.%s: %d components, want %d", fr.name, sn, f.Name(), len(comps), len(sorts))
		return
	}
	for k := range sorts {
		key := heapKey(sn, f.Name(), k)
		st.heap[key] = c.define("H_"+sn+"_"+f.Name(), "(Array Int "+sorts[k]+")", sStore(st.heap[key], ref, comps[k]))
	}
}

func (fr *Frame) zeroStruct(st *State, sn string, ref string) {
	c := fr.c
	for fi, f := range c.pr.Structs[sn].Fields {
		if arr, ok := f.Type().Underlying().(*types.Array); ok {
			en := c.pr.heapStructOf(arr.Elem())
			for i := int64(0); i < arr.Len(); i++ {
				fr.zeroStruct(st, en, lAdd("(* 8 "+ref+")", fmt.Sprint(i)))
			}
			continue
		}
		fr.storeField(st, sn, fi, ref, c.pr.zeroVal(f.Type()))
	}
}

func (fr *Frame) loadStruct(st *State, sn string, ref string) Val {
	c := fr.c
	si := c.pr.Structs[sn]
	v := Val{K: KStruct, T: si.Named}
	for fi, f := range si.Fields {
		if _, ok := f.Type().Underlying().(*types.Array); ok {
			c.errorf("%s: load of whole %s value not supported", fr.name, sn)
			continue
		}
		v.Elems = append(v.Elems, fr.loadField(st, sn, fi, ref))
	}
	return v
}

func (fr *Frame) storeStruct(st *State, sn string, ref string, v Val) {
	if v.Glob == "zero" {
		fr.zeroStruct(st, sn, ref)
		return
	}
	si := fr.c.pr.Structs[sn]
	for fi := range si.Fields {
		fr.storeField(st, sn, fi, ref, v.Elems[fi])
	}
}

func (fr *Frame) load(p Val, st *State, reach string, pos token.Pos) Val {
	c := fr.c
	if p.K == KRef {
		return fr.loadStruct(st, p.SName, p.C[0])
	}
	if p.K != KPtr {
		c.errorf("%s: load through non-pointer %v", fr.name, p.K)
		return Val{K: KInt, C: []string{"0"}}
	}
	ptr := p.P
	switch ptr.Kind {
	case PCell:
		v, ok := st.cells[ptr.Cell]
		if !ok {
			c.errorf("%s: cell %s not live", fr.name, ptr.Cell.Name)
			return Val{K: KInt, C: []string{"0"}}
		}
		for _, fi := range ptr.Path {
			v = v.Elems[fi]
		}
		if ptr.Elem != "" {
			return fr.sliceElem(v, ptr.Elem)
		}
		return v
	case PField:
		return fr.loadField(st, ptr.S, ptr.F, ptr.Ref)
	case PGlobal:
		return fr.globalVal(ptr.Glob)
	case PSliceElem:
		return fr.sliceElem(*ptr.Slice, ptr.Idx)
	}
	c.errorf("%s: unsupported load", fr.name)
	return Val{K: KInt, C: []string{"0"}}
}

func (fr *Frame) sliceElem(sl Val, idx string) Val {
	n := len(sl.C) - 1
	comps := make([]string, n)
	for k := 0; k < n; k++ {
		comps[k] = sSel(sl.C[k], idx)
	}
	v := fr.c.pr.mkVal(sl.ElemT, comps)
	fr.assumeRange(v)
	return v
}

func (fr *Frame) globalVal(g *ssa.Global) Val {
	c := fr.c
	t := deref(g.Type())
	name := g.Name()
	switch u := t.Underlying().(type) {
	case *types.Slice:
		sorts := c.pr.smtSorts(t)
		comps := make([]string, len(sorts))
		for k, s := range sorts {
			comps[k] = c.declare(fmt.Sprintf("G_%s_%d", name, k), s)
		}
		v := c.pr.mkVal(t, comps)
		v.Glob = name
		c.globalFacts(name, v)
		_ = u
		return v
	case *types.Map:
		return Val{K: KMap, T: t, C: []string{"0"}, Glob: name}
	}
	c.errorf("unsupported global %s of type %s", name, t)
	return Val{K: KInt, C: []string{"0"}}
}

// globalFacts imports ground facts about a package-level table (evaluated on this run).
func (c *Ctx) globalFacts(name string, v Val) {
	key := "globalfacts:" + name
	if c.assumed[key] {
		return
	}
	c.assumed[key] = true
	tb := c.pr.Tables
	lenT := v.C[len(v.C)-1]
	intTable := func(vals []int) {
		c.assume(sEq(lenT, fmt.Sprint(len(vals))))
		// default = most common value
		cnt := map[int]int{}
		for _, x := range vals {
			cnt[x]++
		}
		def, best := 0, -1
		for x, n := range cnt {
			if n > best || (n == best && x < def) {
				def, best = x, n
			}
		}
		term := "((as const (Array Int Int)) " + sNum(int64(def)) + ")"
		for i, x := range vals {
			if x != def {
				term = sStore(term, fmt.Sprint(i), sNum(int64(x)))
			}
		}
		// only indices in range are constrained
		gname := c.define("gtab_"+name, "(Array Int Int)", term)
		c.assume("(forall ((i Int)) (! (=> (and (<= 0 i) (< i " + fmt.Sprint(len(vals)) + ")) (= (select " + v.C[0] + " i) (select " + gname + " i))) :pattern ((select " + v.C[0] + " i))))")
		// ground lemma for mode R (re-evaluated on this run's table): the table does not
		// distinguish the two cases of an ASCII letter
		if c.rel != nil && len(vals) == 256 {
			sym := true
			for i := 'a'; i <= 'z'; i++ {
				if vals[i] != vals[i-32] {
					sym = false
				}
			}
			if sym {
				c.assume("(forall ((i Int)) (! (=> (and (<= 0 i) (< i 256)) (= (select " + v.C[0] + " i) (select " + v.C[0] + " " + sUp("i") + "))) :pattern ((select " + v.C[0] + " i))))")
			}
		}
	}
	switch name {
	case "wordAcceptTable":
		intTable(tb.WordAcceptTable)
	case "varAcceptTable":
		intTable(tb.VarAcceptTable)
	case "gsHexDecodeMap":
		intTable(tb.GsHexDecodeMap)
		// ground lemma (evaluated on this run's table): the map is the hex-digit function
		canonical := len(tb.GsHexDecodeMap) == 256
		if canonical {
			for i, x := range tb.GsHexDecodeMap {
				want := 256
				switch {
				case i >= '0' && i <= '9':
					want = i - '0'
				case i >= 'a' && i <= 'f':
					want = i - 'a' + 10
				case i >= 'A' && i <= 'F':
					want = i - 'A' + 10
				}
				if x != want {
					canonical = false
				}
			}
		}
		if canonical {
			c.assume("(forall ((i Int)) (! (=> (and (<= 0 i) (< i 256)) (= (select " + v.C[0] + " i) (ite (and (<= 48 i) (<= i 57)) (- i 48) (ite (and (<= 97 i) (<= i 102)) (- i 87) (ite (and (<= 65 i) (<= i 70)) (- i 55) 256))))) :pattern ((select " + v.C[0] + " i))))")
		}
	case "byteParsers":
		ids := make([]int, len(tb.ByteParsers))
		for i, n := range tb.ByteParsers {
			ids[i] = c.pr.FuncIDs[c.pr.Funcs[n]]
		}
		intTable(ids)
		c.assume("(forall ((i Int)) (! (= (select " + v.C[1] + " i) 0) :pattern ((select " + v.C[1] + " i))))")
	case "blackTags":
		c.assume(sEq(lenT, fmt.Sprint(len(tb.BlackTags))))
		mx := 0
		for _, t := range tb.BlackTags {
			if len(t) > mx {
				mx = len(t)
			}
		}
		c.assume(fmt.Sprintf("(forall ((i Int)) (! (=> (and (<= 0 i) (< i %d)) (and (<= 0 (select %s i)) (<= (select %s i) %d))) :pattern ((select %s i))))", len(tb.BlackTags), v.C[2], v.C[2], mx, v.C[2]))
	case "blackEvents":
		c.assume(sEq(lenT, fmt.Sprint(len(tb.BlackEvents))))
		c.nameTypeFacts(v, tb.BlackEvents)
	case "blacks":
		c.assume(sEq(lenT, fmt.Sprint(len(tb.Blacks))))
		c.nameTypeFacts(v, tb.Blacks)
	default:
		c.errorf("no facts for global %s", name)
	}
}

func (c *Ctx) nameTypeFacts(v Val, es []NameType) {
	// components: name.a name.o name.l attributeType len
	maxLen := 0
	for _, e := range es {
		if len(e.Name) > maxLen {
			maxLen = len(e.Name)
		}
	}
	c.assume(fmt.Sprintf("(forall ((i Int)) (! (=> (and (<= 0 i) (< i %d)) (and (<= 0 (select %s i)) (<= (select %s i) %d))) :pattern ((select %s i))))", len(es), v.C[2], v.C[2], maxLen, v.C[2]))
	for i, e := range es {
		c.assume(sEq(sSel(v.C[3], fmt.Sprint(i)), fmt.Sprint(e.Type)))
		c.assume(sEq(sSel(v.C[2], fmt.Sprint(i)), fmt.Sprint(len(e.Name))))
	}
}

func (fr *Frame) store(p Val, v Val, st *State, reach string, pos token.Pos) {
	c := fr.c
	if p.K == KRef {
		fr.storeStruct(st, p.SName, p.C[0], v)
		return
	}
	if p.K != KPtr {
		c.errorf("%s: store through non-pointer", fr.name)
		return
	}
	ptr := p.P
	switch ptr.Kind {
	case PCell:
		if len(ptr.Path) == 0 && ptr.Elem == "" {
			if v.Glob == "zero" && v.K == KStruct {
				v = c.pr.zeroVal(ptr.Cell.T)
			}
			st.cells[ptr.Cell] = v
			return
		}
		old := st.cells[ptr.Cell]
		st.cells[ptr.Cell] = fr.updateIn(old, ptr.Path, ptr.Elem, v)
	case PField:
		fr.storeField(st, ptr.S, ptr.F, ptr.Ref, v)
	case PGlobal:
		c.oblige(fr.oname("global-write", ptr.Glob.Name()), "global-write", []string{"C05"}, reach, "false", c.pr.lineOf(pos), "store to package-level variable")
	default:
		c.errorf("%s: unsupported store", fr.name)
	}
}

func (fr *Frame) updateIn(old Val, path []int, elem string, v Val) Val {
	if len(path) > 0 {
		nv := old
		nv.Elems = append([]Val{}, old.Elems...)
		nv.Elems[path[0]] = fr.updateIn(old.Elems[path[0]], path[1:], elem, v)
		return nv
	}
	if elem != "" {
		nv := old
		nv.C = append([]string{}, old.C...)
		comps := flat(v)
		for k := range comps {
			nv.C[k] = fr.c.define("arr", fr.c.pr.smtSorts(old.T)[k], sStore(old.C[k], elem, comps[k]))
		}
		return nv
	}
	return v
}

func (fr *Frame) execInstr(in ssa.Instruction, st *State, reach string) {
	c := fr.c
	pr := c.pr
	switch x := in.(type) {
	case *ssa.DebugRef, *ssa.RunDefers:
		return
	case *ssa.Alloc:
		et := deref(x.Type())
		if sn := pr.heapStructOf(et); sn != "" {
			c.allocCtr++
			var ref string
			if sn == "sqliToken" {
				ref = fmt.Sprintf("(- %d)", c.allocCtr)
			} else {
				ref = fmt.Sprint(1000000 + c.allocCtr)
			}
			fr.zeroStruct(st, sn, ref)
			fr.vals[x] = Val{K: KRef, T: x.Type(), C: []string{ref}, SName: sn}
			return
		}
		c.cellCtr++
		cell := &Cell{ID: c.cellCtr, Name: x.Comment, T: et, Alloc: x}
		fr.cells[x] = cell
		if p, ok := et.Underlying().(*types.Pointer); ok && pr.heapStructOf(p.Elem()) == "" {
			// pointer-typed local holding a non-heap pointer (e.g. *deferStack): opaque
			st.cells[cell] = Val{K: KInt, T: et, C: []string{"0"}}
		} else if n, ok := et.(*types.Named); ok && n.Obj().Name() == "deferStack" {
			st.cells[cell] = Val{K: KInt, T: et, C: []string{"0"}}
		} else {
			st.cells[cell] = pr.zeroVal(et)
		}
		fr.vals[x] = Val{K: KPtr, T: x.Type(), P: &Ptr{Kind: PCell, Cell: cell}}
	case *ssa.Store:
		addr := fr.get(x.Addr)
		val := fr.get(x.Val)
		fr.store(addr, val, st, reach, x.Pos())
	case *ssa.UnOp:
		fr.vals[x] = fr.unop(x, st, reach)
	case *ssa.BinOp:
		fr.vals[x] = fr.binop(x, reach)
	case *ssa.FieldAddr:
		base := fr.get(x.X)
		switch base.K {
		case KRef:
			sn := base.SName
			fr.nilCheck(base, reach, x.Pos(), fr.srcText(x.Pos(), isAnyExpr))
			f := pr.Structs[sn].Fields[x.Field]
			if arr, ok := f.Type().Underlying().(*types.Array); ok && pr.heapStructOf(arr.Elem()) != "" {
				fr.vals[x] = Val{K: KPtr, T: x.Type(), P: &Ptr{Kind: PTokVec, Ref: base.C[0], S: pr.heapStructOf(arr.Elem())}}
			} else {
				fr.vals[x] = Val{K: KPtr, T: x.Type(), P: &Ptr{Kind: PField, S: sn, F: x.Field, Ref: base.C[0]}}
			}
		case KPtr:
			if base.P.Kind == PCell {
				np := *base.P
				np.Path = append(append([]int{}, base.P.Path...), x.Field)
				fr.vals[x] = Val{K: KPtr, T: x.Type(), P: &np}
			} else if base.P.Kind == PSliceElem {
				// pointer to a field of a (read-only) slice element: materialise via a temp struct
				ev := fr.sliceElem(*base.P.Slice, base.P.Idx)
				c.cellCtr++
				cell := &Cell{ID: c.cellCtr, Name: "elem", T: base.P.Slice.ElemT}
				st.cells[cell] = ev
				fr.vals[x] = Val{K: KPtr, T: x.Type(), P: &Ptr{Kind: PCell, Cell: cell, Path: []int{x.Field}}}
			} else {
				c.errorf("%s: FieldAddr on unsupported pointer", fr.name)
			}
		default:
			c.errorf("%s: FieldAddr on %v", fr.name, base.K)
		}
	case *ssa.Field:
		base := fr.get(x.X)
		fr.vals[x] = base.Elems[x.Field]
	case *ssa.IndexAddr:
		base := fr.get(x.X)
		idx := fr.get(x.Index).C[0]
		what := fr.srcText(x.Pos(), isIndexExpr)
		switch {
		case base.K == KPtr && base.P.Kind == PTokVec:
			fr.safety("index", what, reach, "(and (<= 0 "+idx+") (< "+idx+" 8))", x.Pos())
			ref := c.define("tok", "Int", lAdd("(* 8 "+base.P.Ref+")", idx))
			fr.vals[x] = Val{K: KRef, T: x.Type(), C: []string{ref}, SName: base.P.S}
		case base.K == KSlice:
			n := base.C[len(base.C)-1]
			fr.safety("index", what, reach, "(and (<= 0 "+idx+") (< "+idx+" "+n+"))", x.Pos())
			b := base
			fr.vals[x] = Val{K: KPtr, T: x.Type(), P: &Ptr{Kind: PSliceElem, Slice: &b, Idx: idx}}
		case base.K == KPtr && base.P.Kind == PCell:
			cv := st.cells[base.P.Cell]
			n := cv.C[len(cv.C)-1]
			fr.safety("index", what, reach, "(and (<= 0 "+idx+") (< "+idx+" "+n+"))", x.Pos())
			np := *base.P
			np.Elem = idx
			fr.vals[x] = Val{K: KPtr, T: x.Type(), P: &np}
		default:
			c.errorf("%s: IndexAddr on unsupported base", fr.name)
		}
	case *ssa.Index:
		base := fr.get(x.X)
		idx := fr.get(x.Index).C[0]
		what := fr.srcText(x.Pos(), isIndexExpr)
		if base.K == KStr {
			fr.safety("index", what, reach, "(and (<= 0 "+idx+") (< "+idx+" "+base.C[2]+"))", x.Pos())
			t := c.define("ch", "Int", sSel(base.C[0], lAdd(base.C[1], idx)))
			c.assumeOnce("(and (<= 0 " + t + ") (<= " + t + " 255))")
			fr.vals[x] = Val{K: KInt, T: x.Type(), C: []string{t}, Byte: true}
		} else {
			c.errorf("%s: Index on %v", fr.name, base.K)
		}
	case *ssa.Slice:
		fr.vals[x] = fr.sliceOp(x, st, reach)
	case *ssa.Lookup:
		fr.vals[x] = fr.lookup(x, reach)
	case *ssa.Extract:
		t := fr.get(x.Tuple)
		fr.vals[x] = t.Elems[x.Index]
	case *ssa.Phi:
		fr.vals[x] = fr.phi(x)
	case *ssa.Call:
		fr.vals[x] = fr.call(x, st, reach)
	case *ssa.MakeClosure:
		fn := x.Fn.(*ssa.Function)
		t := pr.boundTarget(fn)
		recv := "0"
		if len(x.Bindings) == 1 {
			recv = fr.get(x.Bindings[0]).C[0]
		} else if len(x.Bindings) > 1 {
			c.errorf("%s: closure with %d bindings", fr.name, len(x.Bindings))
		}
		fr.vals[x] = Val{K: KFunc, T: x.Type(), C: []string{fmt.Sprint(pr.FuncIDs[t]), recv}}
	case *ssa.ChangeType:
		v := fr.get(x.X)
		v.T = x.Type()
		fr.vals[x] = v
	case *ssa.Convert:
		fr.vals[x] = fr.convert(x, reach)
	case *ssa.If:
		cond := fr.get(x.Cond).C[0]
		cond = c.define("br", "Bool", cond)
		fr.succCond[x.Block()] = []string{cond, sNot(cond)}
	case *ssa.Jump:
		fr.succCond[x.Block()] = []string{"true"}
	case *ssa.Return:
		var res []Val
		for _, r := range x.Results {
			res = append(res, fr.get(r))
		}
		fr.rets = append(fr.rets, retInfo{reach: reach, st: st.clone(), res: res})
		fr.succCond[x.Block()] = nil
	case *ssa.Panic:
		fr.safety("panic", "explicit panic", reach, "false", x.Pos())
		fr.succCond[x.Block()] = nil
	case *ssa.MakeSlice, *ssa.MakeMap, *ssa.MapUpdate, *ssa.MakeInterface, *ssa.TypeAssert, *ssa.Go, *ssa.Defer, *ssa.Send, *ssa.Select, *ssa.Range, *ssa.Next, *ssa.MakeChan:
		c.errorf("%s: unsupported instruction %T (%s)", fr.name, in, in)
		if v, ok := in.(ssa.Value); ok {
			fr.vals[v] = Val{K: KInt, C: []string{"0"}}
		}
	default:
		c.errorf("%s: unhandled instruction %T (%s)", fr.name, in, in)
	}
}

func (fr *Frame) phi(x *ssa.Phi) Val {
	c := fr.c
	b := x.Block()
	var vs []Val
	var conds []string
	for i, p := range b.Preds {
		if isBackEdge(p, b) {
			c.errorf("%s: phi at loop header (naive form expected)", fr.name)
			continue
		}
		if _, ok := fr.out[p]; !ok {
			continue
		}
		cond := "true"
		for j, s := range p.Succs {
			if s == b {
				cond = fr.succCond[p][j]
				break
			}
		}
		vs = append(vs, fr.get(x.Edges[i]))
		conds = append(conds, sAnd(fr.reach[p], cond))
	}
	if len(vs) == 1 {
		return vs[0]
	}
	mt := func(sort string, ts []string) string {
		same := true
		for _, t := range ts[1:] {
			if t != ts[0] {
				same = false
			}
		}
		if same {
			return ts[0]
		}
		term := ts[len(ts)-1]
		for i := len(ts) - 2; i >= 0; i-- {
			term = sIte(conds[i], ts[i], term)
		}
		return c.define("phi", sort, term)
	}
	v := fr.mergeVals(vs, mt)
	if v.T == nil {
		v.T = x.Type()
	}
	return v
}

func (fr *Frame) unop(x *ssa.UnOp, st *State, reach string) Val {
	c := fr.c
	v := fr.get(x.X)
	switch x.Op {
	case token.MUL:
		r := fr.load(v, st, reach, x.Pos())
		return r
	case token.NOT:
		return Val{K: KBool, T: x.Type(), C: []string{sNot(v.C[0])}}
	case token.SUB:
		t := c.define("neg", "Int", "(- "+v.C[0]+")")
		fr.safety("overflow", fr.srcText(x.Pos(), isAnyExpr), reach, inInt64(t), x.Pos())
		return Val{K: KInt, T: x.Type(), C: []string{t}}
	}
	c.errorf("%s: unsupported unary op %s", fr.name, x.Op)
	return Val{K: KInt, C: []string{"0"}}
}

func bitAndConst(x string, cst int64) string {
	// x & cst for a non-negative constant, bit by bit
	var parts []string
	for k := 0; k < 62; k++ {
		if cst&(1<<uint(k)) != 0 {
			p := fmt.Sprint(int64(1) << uint(k))
			parts = append(parts, "(* "+p+" (mod (div "+x+" "+p+") 2))")
		}
	}
	if len(parts) == 0 {
		return "0"
	}
	if len(parts) == 1 {
		return parts[0]
	}
	return "(+ " + strings.Join(parts, " ") + ")"
}

func litInt(t string) (int64, bool) {
	var n int64
	if _, err := fmt.Sscanf(t, "%d", &n); err == nil && fmt.Sprint(n) == t {
		return n, true
	}
	return 0, false
}

func (fr *Frame) binop(x *ssa.BinOp, reach string) Val {
	c := fr.c
	a := fr.get(x.X)
	b := fr.get(x.Y)
	rt := x.Type()
	mkb := func(t string) Val { return Val{K: KBool, T: rt, C: []string{t}} }
	switch {
	case a.K == KStr || b.K == KStr:
		switch x.Op {
		case token.EQL:
			fr.tickStrCmp(a, b)
			return mkb(c.define("seq", "Bool", fr.strEq(a, b)))
		case token.NEQ:
			fr.tickStrCmp(a, b)
			return mkb(sNot(c.define("seq", "Bool", fr.strEq(a, b))))
		case token.ADD:
			return fr.concat(a, b)
		}
		c.errorf("%s: unsupported string op %s", fr.name, x.Op)
		return mkb("false")
	case a.K == KBool:
		switch x.Op {
		case token.EQL:
			return mkb(sEq(a.C[0], b.C[0]))
		case token.NEQ:
			return mkb(sNot(sEq(a.C[0], b.C[0])))
		}
	case a.K == KRef || a.K == KFunc || b.K == KRef:
		eq := sEq(a.C[0], b.C[0])
		if a.K == KFunc {
			eq = sAnd(eq, sEq(a.C[1], b.C[1]))
		}
		switch x.Op {
		case token.EQL:
			return mkb(eq)
		case token.NEQ:
			return mkb(sNot(eq))
		}
	case a.K == KInt:
		p, q := a.C[0], b.C[0]
		byteOp := isByteType(rt) || (a.Byte && b.Byte)
		mki := func(t string, overflow bool) Val {
			name := c.define("v", "Int", t)
			if byteOp {
				name = c.define("v", "Int", "(mod "+t+" 256)")
			} else if overflow {
				if _, isLit := litInt(name); !isLit {
					fr.safety("overflow", fr.srcText(x.Pos(), isBinaryExpr), reach, inInt64(name), x.Pos())
				}
			}
			return Val{K: KInt, T: rt, C: []string{name}, Byte: isByteType(rt)}
		}
		switch x.Op {
		case token.ADD:
			return mki(lAdd(p, q), true)
		case token.SUB:
			return mki(lSub(p, q), true)
		case token.MUL:
			return mki("(* "+p+" "+q+")", true)
		case token.QUO:
			fr.safety("div", fr.srcText(x.Pos(), isBinaryExpr), reach, sNot(sEq(q, "0")), x.Pos())
			// Go truncates toward zero
			t := "(ite (>= " + p + " 0) (div " + p + " (abs " + q + ")) (- (div (- " + p + ") (abs " + q + "))))"
			t = "(ite (> " + q + " 0) " + t + " (- " + t + "))"
			return mki(t, false)
		case token.REM:
			fr.safety("div", fr.srcText(x.Pos(), isBinaryExpr), reach, sNot(sEq(q, "0")), x.Pos())
			t := "(ite (>= " + p + " 0) (mod " + p + " (abs " + q + ")) (- (mod (- " + p + ") (abs " + q + "))))"
			return mki(t, false)
		case token.AND:
			if n, ok := litInt(q); ok && n >= 0 {
				return mki(bitAndConst(p, n), false)
			}
			if n, ok := litInt(p); ok && n >= 0 {
				return mki(bitAndConst(q, n), false)
			}
		case token.OR:
			// a | b for disjoint constants only
			pn, ok1 := litInt(p)
			qn, ok2 := litInt(q)
			if ok1 && ok2 {
				return mki(fmt.Sprint(pn|qn), false)
			}
		case token.EQL:
			return mkb(sEq(p, q))
		case token.NEQ:
			return mkb(sNot(sEq(p, q)))
		case token.LSS:
			return mkb("(< " + p + " " + q + ")")
		case token.LEQ:
			return mkb("(<= " + p + " " + q + ")")
		case token.GTR:
			return mkb("(> " + p + " " + q + ")")
		case token.GEQ:
			return mkb("(>= " + p + " " + q + ")")
		}
	}
	c.errorf("%s: unsupported binary op %s on %v at line %d", fr.name, x.Op, a.K, c.pr.lineOf(x.Pos()))
	if _, ok := rt.Underlying().(*types.Basic); ok && rt.Underlying().(*types.Basic).Info()&types.IsBoolean != 0 {
		return mkb(c.declare(c.fresh("unk"), "Bool"))
	}
	return Val{K: KInt, T: rt, C: []string{c.declare(c.fresh("unk"), "Int")}}
}

// tickStrCmp: comparing two strings costs at most the shorter length (+1).
func (fr *Frame) tickStrCmp(a, b Val) {
	if fr.curState == nil {
		return
	}
	n := "(ite (<= " + a.C[2] + " " + b.C[2] + ") " + a.C[2] + " " + b.C[2] + ")"
	if a.Lit != nil {
		n = sNum(int64(len(*a.Lit)))
	} else if b.Lit != nil {
		n = sNum(int64(len(*b.Lit)))
	}
	fr.c.tick(fr.curState, lAdd(n, "1"))
}

// strEq builds the equality of two strings.
func (fr *Frame) strEq(a, b Val) string { return fr.c.strEq(a, b) }

func (c *Ctx) strEq(a, b Val) string {
	if a.Lit != nil && b.Lit != nil {
		if *a.Lit == *b.Lit {
			return "true"
		}
		return "false"
	}
	if a.Lit != nil {
		a, b = b, a
	}
	if b.Lit != nil {
		lit := *b.Lit
		conj := []string{sEq(a.C[2], fmt.Sprint(len(lit)))}
		for i := 0; i < len(lit); i++ {
			conj = append(conj, sEq(sSel(a.C[0], lAdd(a.C[1], fmt.Sprint(i))), fmt.Sprint(int(lit[i]))))
		}
		return sAnd(conj...)
	}
	if a.C[0] == b.C[0] && a.C[1] == b.C[1] && a.C[2] == b.C[2] {
		return "true"
	}
	q := c.fresh("qi")
	return "(and (= " + a.C[2] + " " + b.C[2] + ") (forall ((" + q + " Int)) (=> (and (<= 0 " + q + ") (< " + q + " " + a.C[2] + ")) (= (select " + a.C[0] + " (+ " + a.C[1] + " " + q + ")) (select " + b.C[0] + " (+ " + b.C[1] + " " + q + "))))))"
}

func (fr *Frame) freshStr(hint string) Val {
	return fr.freshVal(types.Typ[types.String], hint)
}

func (fr *Frame) concat(a, b Val) Val {
	c := fr.c
	if a.Lit != nil && b.Lit != nil {
		return c.strLit(*a.Lit + *b.Lit)
	}
	r := fr.freshStr("cat")
	if fr.curState != nil {
		c.tick(fr.curState, lAdd(lAdd(a.C[2], b.C[2]), "1"))
	}
	c.usedAssumed["string concatenation"] = true
	c.assume(sEq(r.C[1], "0"))
	c.assume(sEq(r.C[2], lAdd(a.C[2], b.C[2])))
	q := c.fresh("qi")
	c.assume("(forall ((" + q + " Int)) (! (=> (and (<= 0 " + q + ") (< " + q + " " + a.C[2] + ")) (= (select " + r.C[0] + " " + q + ") (select " + a.C[0] + " (+ " + a.C[1] + " " + q + ")))) :pattern ((select " + r.C[0] + " " + q + "))))")
	q2 := c.fresh("qi")
	c.assume("(forall ((" + q2 + " Int)) (! (=> (and (<= " + a.C[2] + " " + q2 + ") (< " + q2 + " " + r.C[2] + ")) (= (select " + r.C[0] + " " + q2 + ") (select " + b.C[0] + " (+ " + b.C[1] + " (- " + q2 + " " + a.C[2] + "))))) :pattern ((select " + r.C[0] + " " + q2 + "))))")
	return r
}

func (fr *Frame) sliceOp(x *ssa.Slice, st *State, reach string) Val {
	c := fr.c
	base := fr.get(x.X)
	what := fr.srcText(x.Pos(), isSliceExpr)
	if base.K == KPtr && base.P.Kind == PCell {
		// slicing a local array: arr[:]
		cv := st.cells[base.P.Cell]
		if x.Low != nil || x.High != nil {
			c.errorf("%s: partial slice of local array", fr.name)
		}
		arr := deref(x.X.Type()).Underlying().(*types.Array)
		v := cv
		v.T = x.Type()
		v.ElemT = arr.Elem()
		return v
	}
	if base.K == KStr {
		lo := "0"
		hi := base.C[2]
		if x.Low != nil {
			lo = fr.get(x.Low).C[0]
		}
		if x.High != nil {
			hi = fr.get(x.High).C[0]
		}
		fr.safety("slice", what, reach, "(and (<= 0 "+lo+") (<= "+lo+" "+hi+") (<= "+hi+" "+base.C[2]+"))", x.Pos())
		off := c.define("so", "Int", lAdd(base.C[1], lo))
		ln := c.define("sl", "Int", lSub(hi, lo))
		v := Val{K: KStr, T: x.Type(), C: []string{base.C[0], off, ln}}
		if base.Lit != nil {
			if l, ok1 := litInt(lo); ok1 {
				if h, ok2 := litInt(hi); ok2 && l >= 0 && h <= int64(len(*base.Lit)) && l <= h {
					s := (*base.Lit)[l:h]
					v.Lit = &s
				}
			}
		}
		return v
	}
	if base.K == KSlice {
		if x.Low == nil && x.High == nil {
			return base
		}
	}
	c.errorf("%s: unsupported slice expression %s", fr.name, what)
	return base
}

func (fr *Frame) lookup(x *ssa.Lookup, reach string) Val {
	c := fr.c
	m := fr.get(x.X)
	key := fr.get(x.Index)
	if m.K == KMap {
		c.usedAssumed["map index on a never-written map"] = true
		if fr.curState != nil {
			c.tick(fr.curState, lAdd(key.C[2], "1"))
		}
		val, ok := c.mapLookup(m.Glob, key)
		v := Val{K: KInt, T: x.X.Type().Underlying().(*types.Map).Elem(), C: []string{val}, Byte: true}
		if x.CommaOk {
			return Val{K: KTuple, Elems: []Val{v, {K: KBool, C: []string{ok}}}}
		}
		return v
	}
	c.errorf("%s: unsupported lookup", fr.name)
	return Val{K: KInt, C: []string{"0"}}
}

// mapLookup models keywords[key]: an uninterpreted function of the key's content.
func (c *Ctx) mapLookup(glob string, key Val) (string, string) {
	fn := "MAP_" + glob
	if !c.ufuns[fn] {
		c.ufuns[fn] = true
		c.emit("(declare-fun " + fn + " ((Array Int Int) Int Int) Int)")
	}
	val := c.define("mv", "Int", "("+fn+" "+key.C[0]+" "+key.C[1]+" "+key.C[2]+")")
	// value range: the set of values in the table (read on this run), or 0 when absent
	vals := map[int]bool{}
	for _, v := range c.pr.Tables.SqlKeywords {
		vals[v] = true
	}
	var alts []string
	var vs []int
	for v := range vals {
		vs = append(vs, v)
	}
	sort.Ints(vs)
	alts = append(alts, sEq(val, "0"))
	for _, v := range vs {
		alts = append(alts, sEq(val, fmt.Sprint(v)))
	}
	c.assumeOnce(sOr(alts...))
	// keys are non-empty and at most maxKeyLen long
	maxLen := 0
	for k := range c.pr.Tables.SqlKeywords {
		if len(k) > maxLen {
			maxLen = len(k)
		}
	}
	c.assumeOnce(sImp(sNot(sEq(val, "0")), "(and (<= 1 "+key.C[2]+") (<= "+key.C[2]+" "+fmt.Sprint(maxLen)+"))"))
	// ground lemmas about the table, re-established from its contents on every run
	fn2, ascii := true, true
	for k, v := range c.pr.Tables.SqlKeywords {
		if v == 'f' && len(k) < 2 {
			fn2 = false
		}
		for i := 0; i < len(k); i++ {
			if k[i] >= 128 {
				ascii = false
			}
		}
	}
	if fn2 {
		c.assumeOnce(sImp(sEq(val, "102"), "(<= 2 "+key.C[2]+")"))
	}
	// no blacklisted fingerprint consists of bareword / number classes only ("0" followed by N and 1)
	plainFree := true
	for k, v := range c.pr.Tables.SqlKeywords {
		if v == 'F' && len(k) >= 1 && strings.Trim(k[1:], "N1") == "" {
			plainFree = false
		}
	}
	if plainFree {
		q := c.fresh("qk")
		c.assumeOnce(sImp(sEq(val, "70"), "(exists (("+q+" Int)) (and (<= (+ "+key.C[1]+" 1) "+q+") (< "+q+" (+ "+key.C[1]+" "+key.C[2]+")) (not (= (select "+key.C[0]+" "+q+") 78)) (not (= (select "+key.C[0]+" "+q+") 49))))"))
	}
	// every blacklisted two-class fingerprint ("0XY") ends in C or U
	fp2 := true
	for k, v := range c.pr.Tables.SqlKeywords {
		if v == 'F' && len(k) == 3 && k[2] != 'C' && k[2] != 'U' {
			fp2 = false
		}
	}
	if fp2 {
		k2 := sSel(key.C[0], lAdd(key.C[1], "2"))
		c.assumeOnce(sImp(sAnd(sEq(val, "70"), sEq(key.C[2], "3")), sOr(sEq(k2, "67"), sEq(k2, "85"))))
	}
	if ascii {
		q := c.fresh("qk")
		c.assumeOnce(sImp(sNot(sEq(val, "0")), "(forall (("+q+" Int)) (! (=> (and (<= "+key.C[1]+" "+q+") (< "+q+" (+ "+key.C[1]+" "+key.C[2]+"))) (< (select "+key.C[0]+" "+q+") 128)) :pattern ((select "+key.C[0]+" "+q+"))))"))
	}
	if c.rel != nil {
		c.rel.mapLookup(c, glob, key, val)
	}
	ok := sNot(sEq(val, "0"))
	return val, ok
}

func (fr *Frame) convert(x *ssa.Convert, reach string) Val {
	c := fr.c
	v := fr.get(x.X)
	from := x.X.Type().Underlying()
	to := x.Type().Underlying()
	fb, fok := from.(*types.Basic)
	tb, tok := to.(*types.Basic)
	switch {
	case fok && tok && fb.Info()&types.IsInteger != 0 && tb.Info()&types.IsInteger != 0:
		if tb.Kind() == types.Uint8 && fb.Kind() != types.Uint8 {
			t := c.define("cv", "Int", "(mod "+v.C[0]+" 256)")
			return Val{K: KInt, T: x.Type(), C: []string{t}, Byte: true}
		}
		return Val{K: KInt, T: x.Type(), C: v.C, Byte: tb.Kind() == types.Uint8}
	case fok && tok && fb.Info()&types.IsInteger != 0 && tb.Info()&types.IsString != 0:
		// string(byte or rune): UTF-8 encoding of the code point
		if n, ok := litInt(v.C[0]); ok && n < 128 && n >= 0 {
			r := c.strLit(string([]byte{byte(n)}))
			r.T = x.Type()
			return r
		}
		c.usedAssumed["string(byte): UTF-8 encoding of the code point"] = true
		r := fr.freshStr("s1")
		b := v.C[0]
		c.assume(sEq(r.C[1], "0"))
		c.assume("(ite (< " + b + " 128) (and (= " + r.C[2] + " 1) (= (select " + r.C[0] + " 0) " + b + ")) (and (= " + r.C[2] + " 2) (= (select " + r.C[0] + " 0) (+ 192 (div " + b + " 64))) (= (select " + r.C[0] + " 1) (+ 128 (mod " + b + " 64)))))")
		return r
	case tok && tb.Info()&types.IsString != 0:
		// string([]byte)
		if v.K == KSlice {
			return Val{K: KStr, T: x.Type(), C: []string{v.C[0], "0", v.C[1]}}
		}
	case fok && fb.Info()&types.IsString != 0:
		// []byte(string)
		if _, ok := to.(*types.Slice); ok {
			c.usedAssumed["[]byte(string) copies the bytes"] = true
			sl := fr.freshVal(x.Type(), "bs")
			c.assume(sEq(sl.C[1], v.C[2]))
			q := c.fresh("qi")
			c.assume("(forall ((" + q + " Int)) (! (=> (and (<= 0 " + q + ") (< " + q + " " + v.C[2] + ")) (= (select " + sl.C[0] + " " + q + ") (select " + v.C[0] + " (+ " + v.C[1] + " " + q + ")))) :pattern ((select " + sl.C[0] + " " + q + "))))")
			return sl
		}
	}
	c.errorf("%s: unsupported conversion %s -> %s", fr.name, from, to)
	return v
}

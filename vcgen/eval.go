package main

import (
	"fmt"
	"go/ast"
	"go/constant"
	"go/types"
	"strings"

	"golang.org/x/tools/go/ssa"
)

type astNode = ast.Node

func isCallExpr(n ast.Node) bool { _, ok := n.(*ast.CallExpr); return ok }

// Env is the evaluation context of a contract expression.
type Env struct {
	fr          *Frame
	cur, old    *State
	vars        map[string]Val
	params      map[string]Val // callee parameters at a call site
	calleeFn    *ssa.Function
	results     []Val
	useCells    bool // resolve names through the frame's local cells (invariants)
	paramsEntry bool // names resolve to the frame's parameters (entry values)
	inOld       bool
	qdepth      int
	loop        *LoopInfo // the loop whose invariant is being evaluated
	revealing   bool      // expand opaque specs (only while processing a reveal clause)
	relL, relR  *Env      // mode R: the environments of the two runs (L(e) / R(e))
}

func (e *Env) with(name string, v Val) *Env {
	n := *e
	n.vars = make(map[string]Val, len(e.vars)+1)
	for k, x := range e.vars {
		n.vars[k] = x
	}
	n.vars[name] = v
	return &n
}

func (fr *Frame) evalBool(e Expr, env *Env, cl *Clause) string {
	v := fr.evalExpr(e, env)
	if v.K != KBool {
		where := ""
		if cl != nil {
			where = fmt.Sprintf(" (contracts line %d)", cl.Line)
		}
		fr.c.errorf("%s: contract expression is not boolean%s", fr.name, where)
		return "true"
	}
	return v.C[0]
}

func (fr *Frame) lookupCellByName(name string, st *State) (Val, bool) {
	// innermost live cell with that source name: the one allocated last
	var best *Cell
	for _, cell := range fr.cells {
		if cell.Name != name {
			continue
		}
		if _, live := st.cells[cell]; !live {
			continue
		}
		if best == nil || cell.ID > best.ID {
			best = cell
		}
	}
	if best == nil {
		return Val{}, false
	}
	return st.cells[best], true
}

func (fr *Frame) resolveIdent(name string, env *Env) Val {
	c := fr.c
	if v, ok := env.vars[name]; ok {
		return v
	}
	switch name {
	case "$cost":
		if env.inOld || env.cur == nil || env.cur.cost == "" {
			return intVal("0")
		}
		return intVal(env.cur.cost)
	case "result", "result0":
		if len(env.results) > 0 {
			return env.results[0]
		}
	case "result1":
		if len(env.results) > 1 {
			return env.results[1]
		}
	case "nil":
		return Val{K: KRef, C: []string{"0"}}
	}
	if env.params != nil {
		if v, ok := env.params[name]; ok {
			return v
		}
	} else {
		if env.useCells && !env.inOld {
			if v, ok := fr.lookupCellByName(name, env.cur); ok {
				return v
			}
			// a local of heap-struct type (e.g. lastComment): its object reference
			for a, v := range fr.vals {
				if al, ok := a.(*ssa.Alloc); ok && al.Comment == name && v.K == KRef {
					return v
				}
			}
		}
		if v, ok := fr.params[name]; ok {
			return v
		}
	}
	// package-level constant
	if obj := c.pr.Pkg.Types.Scope().Lookup(name); obj != nil {
		if k, ok := obj.(*types.Const); ok {
			switch k.Val().Kind() {
			case constant.Int:
				n, _ := constant.Int64Val(k.Val())
				return Val{K: KInt, T: k.Type(), C: []string{sNum(n)}}
			case constant.Bool:
				if constant.BoolVal(k.Val()) {
					return boolVal("true")
				}
				return boolVal("false")
			case constant.String:
				return c.strLit(constant.StringVal(k.Val()))
			}
		}
		if f, ok := obj.(*types.Func); ok {
			if sf := c.pr.Funcs[f.Name()]; sf != nil {
				return Val{K: KFunc, C: []string{fmt.Sprint(c.pr.FuncIDs[sf]), "0"}}
			}
		}
		if g, ok := obj.(*types.Var); ok {
			if sg, ok := c.pr.SSAPkg.Members[g.Name()].(*ssa.Global); ok {
				return fr.globalVal(sg)
			}
		}
	}
	c.errorf("%s: contract identifier %q not found", fr.name, name)
	return intVal("0")
}

func (fr *Frame) evalExpr(e Expr, env *Env) Val {
	c := fr.c
	switch x := e.(type) {
	case *EInt:
		return intVal(sNum(x.V))
	case *EBool:
		if x.V {
			return boolVal("true")
		}
		return boolVal("false")
	case *EStr:
		return c.strLit(x.V)
	case *EIdent:
		return fr.resolveIdent(x.Name, env)
	case *EOld:
		n := *env
		n.cur = env.old
		n.inOld = true
		return fr.evalExpr(x.X, &n)
	case *EField:
		base := fr.evalExpr(x.X, env)
		switch base.K {
		case KRef:
			si := c.pr.Structs[base.SName]
			if si == nil {
				c.errorf("%s: field %s of untyped reference", fr.name, x.Name)
				return intVal("0")
			}
			for fi, f := range si.Fields {
				if f.Name() == x.Name {
					if arr, ok := f.Type().Underlying().(*types.Array); ok {
						return Val{K: KPtr, P: &Ptr{Kind: PTokVec, Ref: base.C[0], S: c.pr.heapStructOf(arr.Elem())}}
					}
					return fr.loadFieldNoAssume(env.cur, base.SName, fi, base.C[0])
				}
			}
			// method value
			if m := c.pr.Funcs["(*"+base.SName+")."+x.Name]; m != nil {
				return Val{K: KFunc, C: []string{fmt.Sprint(c.pr.FuncIDs[m]), base.C[0]}}
			}
			c.errorf("%s: no field %s in %s", fr.name, x.Name, base.SName)
			return intVal("0")
		case KStruct:
			if st, ok := base.T.Underlying().(*types.Struct); ok {
				for i := 0; i < st.NumFields(); i++ {
					if st.Field(i).Name() == x.Name {
						return base.Elems[i]
					}
				}
			}
		}
		c.errorf("%s: field access .%s on %v", fr.name, x.Name, base.K)
		return intVal("0")
	case *EIndex:
		base := fr.evalExpr(x.X, env)
		idx := fr.evalExpr(x.I, env)
		switch {
		case base.K == KStr:
			return Val{K: KInt, C: []string{sSel(base.C[0], lAdd(base.C[1], idx.C[0]))}, Byte: true}
		case base.K == KPtr && base.P.Kind == PTokVec:
			return Val{K: KRef, C: []string{lAdd("(* 8 "+base.P.Ref+")", idx.C[0])}, SName: base.P.S}
		case base.K == KSlice:
			return fr.sliceElemNoAssume(base, idx.C[0])
		}
		c.errorf("%s: index on %v", fr.name, base.K)
		return intVal("0")
	case *ESlice:
		base := fr.evalExpr(x.X, env)
		if base.K != KStr {
			c.errorf("%s: slice of %v", fr.name, base.K)
			return base
		}
		lo, hi := "0", base.C[2]
		if x.Lo != nil {
			lo = fr.evalExpr(x.Lo, env).C[0]
		}
		if x.Hi != nil {
			hi = fr.evalExpr(x.Hi, env).C[0]
		}
		return Val{K: KStr, C: []string{base.C[0], lAdd(base.C[1], lo), lSub(hi, lo)}}
	case *EUn:
		v := fr.evalExpr(x.X, env)
		if x.Op == "!" {
			return boolVal(sNot(v.C[0]))
		}
		return intVal(linNorm("(- " + v.C[0] + ")"))
	case *ECond:
		cnd := fr.evalExpr(x.C, env)
		a := fr.evalExpr(x.A, env)
		b := fr.evalExpr(x.B, env)
		if a.K == KStr {
			return Val{K: KStr, C: []string{sIte(cnd.C[0], a.C[0], b.C[0]), sIte(cnd.C[0], a.C[1], b.C[1]), sIte(cnd.C[0], a.C[2], b.C[2])}}
		}
		r := a
		r.C = make([]string, len(a.C))
		for i := range a.C {
			r.C[i] = sIte(cnd.C[0], a.C[i], b.C[i])
		}
		return r
	case *ELet:
		v := fr.evalExpr(x.Val, env)
		return fr.evalExpr(x.Body, env.with(x.Var, v))
	case *EQuant:
		return fr.evalQuant(x, env)
	case *EBin:
		return fr.evalBin(x, env)
	case *ECall:
		return fr.evalCall(x, env)
	}
	c.errorf("%s: unsupported contract expression %T", fr.name, e)
	return intVal("0")
}

func (fr *Frame) loadFieldNoAssume(st *State, sn string, fi int, ref string) Val {
	c := fr.c
	f := c.pr.Structs[sn].Fields[fi]
	sorts := c.pr.smtSorts(f.Type())
	comps := make([]string, len(sorts))
	for k := range sorts {
		comps[k] = c.selectHeap(st.heap[heapKey(sn, f.Name(), k)], ref)
	}
	return c.pr.mkVal(f.Type(), comps)
}

func (fr *Frame) sliceElemNoAssume(sl Val, idx string) Val {
	n := len(sl.C) - 1
	comps := make([]string, n)
	for k := 0; k < n; k++ {
		comps[k] = sSel(sl.C[k], idx)
	}
	return fr.c.pr.mkVal(sl.ElemT, comps)
}

// findPivot looks for a string indexed with an expression mentioning the bound variable.
func (fr *Frame) findPivot(e Expr, v string, env *Env) (Val, bool) {
	var found Val
	ok := false
	var walk func(e Expr)
	mentions := func(e Expr) bool {
		m := false
		var w func(e Expr)
		w = func(e Expr) {
			switch x := e.(type) {
			case *EIdent:
				if x.Name == v {
					m = true
				}
			case *EBin:
				w(x.X)
				w(x.Y)
			case *EUn:
				w(x.X)
			}
		}
		w(e)
		return m
	}
	walk = func(e Expr) {
		if ok {
			return
		}
		switch x := e.(type) {
		case *EIndex:
			if mentions(x.I) {
				func() {
					defer func() { recover() }()
					nerr := len(fr.c.errs)
					b := fr.evalExpr(x.X, env.with(v, intVal("0")))
					fr.c.errs = fr.c.errs[:nerr]
					if b.K == KStr {
						found, ok = b, true
					}
				}()
				return
			}
			walk(x.X)
			walk(x.I)
		case *EBin:
			walk(x.X)
			walk(x.Y)
		case *EUn:
			walk(x.X)
		case *ECond:
			walk(x.C)
			walk(x.A)
			walk(x.B)
		case *ECall:
			for _, a := range x.Args {
				walk(a)
			}
		case *EOld:
			walk(x.X)
		case *ELet:
			walk(x.Val)
			walk(x.Body)
		case *EField:
			walk(x.X)
		case *ESlice:
			walk(x.X)
		}
	}
	walk(e)
	return found, ok
}

func (fr *Frame) evalQuant(x *EQuant, env *Env) Val {
	c := fr.c
	lo := fr.evalExpr(x.Lo, env).C[0]
	hi := fr.evalExpr(x.Hi, env).C[0]
	j := c.fresh("q_" + x.Var)
	bound := intVal(j)
	loT, hiT := lo, hi
	pattern := ""
	if piv, ok := fr.findPivot(x.Body, x.Var, env); ok && piv.C[1] != "0" {
		// quantify over the absolute index j = off + k
		bound = intVal(lSub(j, piv.C[1]))
		loT, hiT = lAdd(lo, piv.C[1]), lAdd(hi, piv.C[1])
		pattern = "(select " + piv.C[0] + " " + j + ")"
	} else if ok {
		pattern = "(select " + piv.C[0] + " " + j + ")"
	}
	benv := env.with(x.Var, bound)
	benv.qdepth = env.qdepth + 1
	body := fr.evalExpr(x.Body, benv)
	if body.K != KBool {
		c.errorf("%s: quantifier body is not boolean", fr.name)
		return boolVal("true")
	}
	rng := "(and (<= " + loT + " " + j + ") (< " + j + " " + hiT + "))"
	usePat := pattern != "" && strings.Contains(body.C[0], pattern)
	if usePat {
		if piv, ok := fr.findPivot(x.Body, x.Var, env); !ok || !c.patternable(piv.C[0]) {
			usePat = false
		}
	}
	if usePat && c.rel != nil {
		// mode R: trigger on every read of the pivot array at an index j+const that the body
		// makes, so that an instance creates no new read of that array (no self-triggering)
		if piv, ok := fr.findPivot(x.Body, x.Var, env); ok {
			if ts := windowReads(body.C[0], piv.C[0], j); len(ts) > 1 {
				pattern = strings.Join(ts, " ")
			}
		}
	}
	wrap := func(inner string) string {
		if usePat {
			return "(! " + inner + " :pattern (" + pattern + "))"
		}
		return inner
	}
	if x.Forall {
		return boolVal("(forall ((" + j + " Int)) " + wrap("(=> "+rng+" "+body.C[0]+")") + ")")
	}
	return boolVal("(exists ((" + j + " Int)) " + wrap("(and "+rng+" "+body.C[0]+")") + ")")
}

func (fr *Frame) evalBin(x *EBin, env *Env) Val {
	c := fr.c
	a := fr.evalExpr(x.X, env)
	switch x.Op {
	case "&&":
		if a.C[0] == "false" {
			return a
		}
		b := fr.evalExpr(x.Y, env)
		return boolVal(sAnd(a.C[0], b.C[0]))
	case "||":
		b := fr.evalExpr(x.Y, env)
		return boolVal(sOr(a.C[0], b.C[0]))
	case "==>":
		b := fr.evalExpr(x.Y, env)
		return boolVal(sImp(a.C[0], b.C[0]))
	case "<==>":
		b := fr.evalExpr(x.Y, env)
		return boolVal(sEq(a.C[0], b.C[0]))
	}
	b := fr.evalExpr(x.Y, env)
	switch x.Op {
	case "==", "!=":
		var eq string
		switch {
		case a.K == KStr || b.K == KStr:
			eq = c.strEq(a, b)
		case a.K == KFunc && b.K == KFunc:
			eq = sAnd(sEq(a.C[0], b.C[0]), sEq(a.C[1], b.C[1]))
		case a.K == KStruct && b.K == KStruct:
			fa, fb := flat(a), flat(b)
			var conj []string
			for i := range fa {
				conj = append(conj, sEq(fa[i], fb[i]))
			}
			eq = sAnd(conj...)
		default:
			eq = sEq(a.C[0], b.C[0])
		}
		if x.Op == "!=" {
			return boolVal(sNot(eq))
		}
		return boolVal(eq)
	case "<", "<=", ">", ">=":
		return boolVal("(" + x.Op + " " + a.C[0] + " " + b.C[0] + ")")
	case "+":
		return intVal(lAdd(a.C[0], b.C[0]))
	case "-":
		return intVal(lSub(a.C[0], b.C[0]))
	case "*":
		return intVal(linNorm("(* " + a.C[0] + " " + b.C[0] + ")"))
	case "/":
		return intVal("(div " + a.C[0] + " " + b.C[0] + ")")
	case "%":
		return intVal("(mod " + a.C[0] + " " + b.C[0] + ")")
	case "&":
		if n, ok := litInt(b.C[0]); ok {
			return intVal(bitAndConst(a.C[0], n))
		}
	}
	c.errorf("%s: unsupported contract operator %s", fr.name, x.Op)
	return intVal("0")
}

func (fr *Frame) evalCall(x *ECall, env *Env) Val {
	c := fr.c
	arg := func(i int) Val { return fr.evalExpr(x.Args[i], env) }
	switch x.Fn {
	case "L", "R":
		side := env.relL
		if x.Fn == "R" {
			side = env.relR
		}
		if side == nil {
			c.errorf("%s: %s(...) outside a relational clause", fr.name, x.Fn)
			return intVal("0")
		}
		e2 := *side
		e2.vars = env.vars
		e2.qdepth = env.qdepth
		e2.relL, e2.relR = env.relL, env.relR
		return side.fr.evalExpr(x.Args[0], &e2)
	case "local":
		// value of a local variable of the function in the evaluation state (used in
		// postconditions about a value built in a local, e.g. a strings.Builder)
		if id, ok := x.Args[0].(*EIdent); ok {
			if v, ok := fr.lookupCellByName(id.Name, env.cur); ok {
				return v
			}
		}
		// declared later on this path (e.g. an early return): an unconstrained value of its type
		if id, ok := x.Args[0].(*EIdent); ok {
			for _, b := range fr.fn.Blocks {
				for _, in := range b.Instrs {
					if a, isA := in.(*ssa.Alloc); isA && a.Comment == id.Name {
						return fr.freshVal(deref(a.Type()), "nolocal_"+id.Name)
					}
				}
			}
		}
		c.errorf("%s: local(): no such local", fr.name)
		return intVal("0")
	case "athead":
		// value of the expression at the head of the current loop (start of this iteration)
		if env.loop == nil || env.loop.hstate == nil {
			c.errorf("%s: athead() outside a loop clause", fr.name)
			return intVal("0")
		}
		n := *env
		n.cur = env.loop.hstate
		return fr.evalExpr(x.Args[0], &n)
	case "outer":
		// value of the expression at the head of the enclosing loop (current outer iteration)
		if env.loop == nil {
			c.errorf("%s: outer() outside a loop invariant", fr.name)
			return intVal("0")
		}
		var enc *LoopInfo
		for _, li := range fr.loops {
			if li != env.loop && li.blocks[env.loop.header] && li.hstate != nil {
				if enc == nil || len(li.blocks) < len(enc.blocks) {
					enc = li
				}
			}
		}
		if enc == nil {
			c.errorf("%s: outer(): no enclosing loop", fr.name)
			return intVal("0")
		}
		n := *env
		n.cur = enc.hstate
		n.loop = enc
		return fr.evalExpr(x.Args[0], &n)
	case "len":
		v := arg(0)
		switch v.K {
		case KStr:
			if env.qdepth == 0 {
				fr.assumeRange(v)
			}
			return intVal(v.C[2])
		case KSlice:
			return intVal(v.C[len(v.C)-1])
		}
		c.errorf("%s: len of %v", fr.name, v.K)
		return intVal("0")
	case "off":
		return intVal(arg(0).C[1])
	case "sameArr":
		a, b := arg(0), arg(1)
		return boolVal(sEq(a.C[0], b.C[0]))
	case "suffixOf":
		// a is a suffix of b (same backing array, same end)
		a, b := arg(0), arg(1)
		return boolVal(sAnd(sEq(a.C[0], b.C[0]), sEq(lAdd(a.C[1], a.C[2]), lAdd(b.C[1], b.C[2])), "(<= "+b.C[1]+" "+a.C[1]+")"))
	case "aliases":
		// identical representation
		a, b := arg(0), arg(1)
		return boolVal(sAnd(sEq(a.C[0], b.C[0]), sEq(a.C[1], b.C[1]), sEq(a.C[2], b.C[2])))
	case "min":
		a, b := arg(0).C[0], arg(1).C[0]
		return intVal("(ite (<= " + a + " " + b + ") " + a + " " + b + ")")
	case "max":
		a, b := arg(0).C[0], arg(1).C[0]
		return intVal("(ite (>= " + a + " " + b + ") " + a + " " + b + ")")
	case "tv":
		s, i := arg(0), arg(1)
		return Val{K: KRef, C: []string{lAdd("(* 8 "+s.C[0]+")", i.C[0])}, SName: "sqliToken"}
	case "tvIndex":
		s, r := arg(0), arg(1)
		return intVal(lSub(r.C[0], "(* 8 "+s.C[0]+")"))
	case "str":
		// str(a, j, l): the string of length l starting at absolute index j of array a
		return Val{K: KStr, C: []string{arg(0).C[0], arg(1).C[0], arg(2).C[0]}}
	case "arr":
		// backing array of a string value
		return Val{K: KInt, C: []string{arg(0).C[0]}}
	case "sel":
		return Val{K: KInt, C: []string{sSel(arg(0).C[0], arg(1).C[0])}, Byte: true}
	case "odd":
		return boolVal("(= (mod " + arg(0).C[0] + " 2) 1)")
	case "firstAbs":
		// firstAbs(a, lo, hi, d): the least absolute index r in [lo,hi) with a[r]==d, or hi.
		// Introduced by its characterisation, instantiated at each use (such an r exists when lo<=hi).
		a, lo, hi, d := arg(0).C[0], arg(1).C[0], arg(2).C[0], arg(3).C[0]
		if !c.ufuns["FIRSTABS"] {
			c.ufuns["FIRSTABS"] = true
			c.emit("(declare-fun FIRSTABS ((Array Int Int) Int Int Int) Int)")
		}
		r := "(FIRSTABS " + a + " " + lo + " " + hi + " " + d + ")"
		if env.qdepth == 0 {
			q := c.fresh("qf")
			c.assumeOnce("(=> (<= " + lo + " " + hi + ") (and (<= " + lo + " " + r + ") (<= " + r + " " + hi + ") (forall ((" + q + " Int)) (=> (and (<= " + lo + " " + q + ") (< " + q + " " + r + ")) (not (= (select " + a + " " + q + ") " + d + ")))) (=> (< " + r + " " + hi + ") (= (select " + a + " " + r + ") " + d + "))))")
		}
		return intVal(r)
	case "firstNeAbs":
		// firstNeAbs(a, lo, hi, d): the least absolute index r in [lo,hi) with a[r] != d, or hi.
		a, lo, hi, d := arg(0).C[0], arg(1).C[0], arg(2).C[0], arg(3).C[0]
		if !c.ufuns["FIRSTNEABS"] {
			c.ufuns["FIRSTNEABS"] = true
			c.emit("(declare-fun FIRSTNEABS ((Array Int Int) Int Int Int) Int)")
		}
		r := "(FIRSTNEABS " + a + " " + lo + " " + hi + " " + d + ")"
		if env.qdepth == 0 {
			q := c.fresh("qf")
			c.assumeOnce("(=> (<= " + lo + " " + hi + ") (and (<= " + lo + " " + r + ") (<= " + r + " " + hi + ") (forall ((" + q + " Int)) (=> (and (<= " + lo + " " + q + ") (< " + q + " " + r + ")) (= (select " + a + " " + q + ") " + d + "))) (=> (< " + r + " " + hi + ") (not (= (select " + a + " " + r + ") " + d + ")))))")
		}
		return intVal(r)
	case "lastNeAbs":
		// lastNeAbs(a, lo, hi, d): the greatest absolute index r in [lo,hi) with a[r] != d, or lo-1.
		// Introduced by its characterisation, instantiated at each use (such an r exists when lo<=hi).
		a, lo, hi, d := arg(0).C[0], arg(1).C[0], arg(2).C[0], arg(3).C[0]
		if !c.ufuns["LASTNEABS"] {
			c.ufuns["LASTNEABS"] = true
			c.emit("(declare-fun LASTNEABS ((Array Int Int) Int Int Int) Int)")
		}
		r := "(LASTNEABS " + a + " " + lo + " " + hi + " " + d + ")"
		if env.qdepth == 0 {
			q := c.fresh("qf")
			c.assumeOnce("(=> (<= " + lo + " " + hi + ") (and (<= (- " + lo + " 1) " + r + ") (< " + r + " " + hi + ") (=> (<= " + lo + " " + r + ") (not (= (select " + a + " " + r + ") " + d + "))) (forall ((" + q + " Int)) (=> (and (< " + r + " " + q + ") (< " + q + " " + hi + ")) (= (select " + a + " " + q + ") " + d + ")))))")
		}
		return intVal(r)
	case "memberOf":
		// byte c occurs in string set
		cv, set := arg(0).C[0], arg(1)
		if set.Lit != nil {
			var alts []string
			for i := 0; i < len(*set.Lit); i++ {
				alts = append(alts, sEq(cv, fmt.Sprint(int((*set.Lit)[i]))))
			}
			return boolVal(sOr(alts...))
		}
		j := c.fresh("qm")
		return boolVal("(exists ((" + j + " Int)) (and (<= " + set.C[1] + " " + j + ") (< " + j + " (+ " + set.C[1] + " " + set.C[2] + ")) (= (select " + set.C[0] + " " + j + ") " + cv + ")))")
	case "up":
		b := arg(0).C[0]
		return intVal("(ite (and (<= 97 " + b + ") (<= " + b + " 122)) (- " + b + " 32) " + b + ")")
	case "parserOf":
		// id of byteParsers[ch]
		g := fr.globalVal(c.pr.SSAPkg.Members["byteParsers"].(*ssa.Global))
		return Val{K: KFunc, C: []string{sSel(g.C[0], arg(0).C[0]), "0"}}
	case "wordAccept":
		g := fr.globalVal(c.pr.SSAPkg.Members["wordAcceptTable"].(*ssa.Global))
		return intVal(sSel(g.C[0], arg(0).C[0]))
	case "varAccept":
		g := fr.globalVal(c.pr.SSAPkg.Members["varAcceptTable"].(*ssa.Global))
		return intVal(sSel(g.C[0], arg(0).C[0]))
	case "kwClass":
		// class byte of the keyword table for the (already upper-case) key, 0 if absent
		k := arg(0)
		v, _ := c.mapLookup("sqlKeywords", k)
		return intVal(v)
	}
	if x.Fn == "stateOf" {
		// abstract value of the whole scanner state reachable from s (every sqliState and
		// sqliToken field array, and the reference itself)
		sref := arg(0)
		name := "STATEOF"
		var sorts, comps []string
		for _, key := range c.heapKeys {
			if strings.HasPrefix(key, "sqliState.") || strings.HasPrefix(key, "sqliToken.") {
				sorts = append(sorts, "(Array Int "+c.heapSort[key]+")")
				comps = append(comps, env.cur.heap[key])
			}
		}
		sorts = append(sorts, "Int")
		comps = append(comps, sref.C[0])
		if !c.ufuns[name] {
			c.ufuns[name] = true
			c.emit("(declare-fun " + name + " (" + strings.Join(sorts, " ") + ") Int)")
		}
		return intVal("(" + name + " " + strings.Join(comps, " ") + ")")
	}
	if uf := c.pr.Cs.Ufuns[x.Fn]; uf != nil {
		if len(uf.Params) != len(x.Args) {
			c.errorf("%s: ufun %s expects %d arguments", fr.name, x.Fn, len(uf.Params))
			return intVal("0")
		}
		var sorts, comps []string
		for i, pt := range uf.Params {
			v := arg(i)
			switch pt {
			case "string":
				sorts = append(sorts, "(Array Int Int)", "Int", "Int")
			case "bool":
				sorts = append(sorts, "Bool")
			default:
				sorts = append(sorts, "Int")
			}
			comps = append(comps, flat(v)...)
		}
		decl := func(name, ret string) {
			if !c.ufuns[name] {
				c.ufuns[name] = true
				c.emit("(declare-fun " + name + " (" + strings.Join(sorts, " ") + ") " + ret + ")")
			}
		}
		app := func(name string) string {
			if len(comps) == 0 {
				return name
			}
			return "(" + name + " " + strings.Join(comps, " ") + ")"
		}
		switch uf.Ret {
		case "string":
			decl("UF_"+uf.Name+"_a", "(Array Int Int)")
			decl("UF_"+uf.Name+"_o", "Int")
			decl("UF_"+uf.Name+"_l", "Int")
			return Val{K: KStr, C: []string{app("UF_" + uf.Name + "_a"), app("UF_" + uf.Name + "_o"), app("UF_" + uf.Name + "_l")}}
		case "bool":
			decl("UF_"+uf.Name, "Bool")
			return boolVal(app("UF_" + uf.Name))
		default:
			decl("UF_"+uf.Name, "Int")
			return intVal(app("UF_" + uf.Name))
		}
	}
	if sp := c.pr.Cs.Specs[x.Fn]; sp != nil {
		if len(sp.Params) != len(x.Args) {
			c.errorf("%s: spec %s expects %d arguments", fr.name, x.Fn, len(sp.Params))
			return intVal("0")
		}
		if sp.Rec || (sp.Opaque && !env.revealing) {
			return fr.applyRecSpec(sp, x, env)
		}
		n := &Env{fr: env.fr, cur: env.cur, old: env.old, vars: map[string]Val{}, params: map[string]Val{}, results: env.results, inOld: env.inOld, qdepth: env.qdepth, loop: env.loop, useCells: false, revealing: false}
		for i, p := range sp.Params {
			n.vars[p.Name] = arg(i)
		}
		return fr.evalExpr(sp.Body, n)
	}
	c.errorf("%s: unknown contract function %s", fr.name, x.Fn)
	return intVal("0")
}

// ---- recursive spec functions: uninterpreted symbol + explicit unfolding

func (fr *Frame) recSpecSym(sp *Spec) (string, []string) {
	c := fr.c
	name := "SPEC_" + sp.Name
	var sorts []string
	for _, p := range sp.Params {
		switch p.Type {
		case "string":
			sorts = append(sorts, "(Array Int Int)", "Int", "Int")
		case "array":
			sorts = append(sorts, "(Array Int Int)")
		case "bool":
			sorts = append(sorts, "Bool")
		default:
			sorts = append(sorts, "Int")
		}
	}
	if !c.ufuns[name] {
		c.ufuns[name] = true
		ret := "Int"
		if sp.Ret == "bool" {
			ret = "Bool"
		}
		c.emit("(declare-fun " + name + " (" + strings.Join(sorts, " ") + ") " + ret + ")")
	}
	return name, sorts
}

func (fr *Frame) applyRecSpec(sp *Spec, x *ECall, env *Env) Val {
	name, _ := fr.recSpecSym(sp)
	var comps []string
	for i := range sp.Params {
		comps = append(comps, flat(fr.evalExpr(x.Args[i], env))...)
	}
	t := "(" + name + " " + strings.Join(comps, " ") + ")"
	if sp.Ret == "bool" {
		return boolVal(t)
	}
	return intVal(t)
}

// revealHint assumes the definition of an opaque spec at the given arguments.
func (fr *Frame) revealHint(u Expr, env *Env) {
	c := fr.c
	call, ok := u.(*ECall)
	if !ok {
		c.errorf("%s: reveal needs a spec application", fr.name)
		return
	}
	sp := c.pr.Cs.Specs[call.Fn]
	if sp == nil || !sp.Opaque {
		c.errorf("%s: reveal of a spec that is not opaque: %s", fr.name, call.Fn)
		return
	}
	lhs := fr.applyRecSpec(sp, call, env)
	n := &Env{fr: env.fr, cur: env.cur, old: env.old, vars: map[string]Val{}, params: map[string]Val{}}
	for i, p := range sp.Params {
		n.vars[p.Name] = fr.evalExpr(call.Args[i], env)
	}
	rhs := fr.evalExpr(sp.Body, n)
	c.assume(sEq(lhs.C[0], rhs.C[0]))
}

// unfoldHint instantiates the defining equation of a recursive spec at the given arguments.
func (fr *Frame) unfoldHint(u Expr, env *Env, reach string) {
	c := fr.c
	call, ok := u.(*ECall)
	if !ok {
		c.errorf("%s: unfold hint must be a spec application", fr.name)
		return
	}
	sp := c.pr.Cs.Specs[call.Fn]
	if sp == nil || !sp.Rec {
		c.errorf("%s: unfold of non-recursive spec %s", fr.name, call.Fn)
		return
	}
	lhs := fr.applyRecSpec(sp, call, env)
	n := &Env{fr: env.fr, cur: env.cur, old: env.old, vars: map[string]Val{}, params: map[string]Val{}}
	for i, p := range sp.Params {
		n.vars[p.Name] = fr.evalExpr(call.Args[i], env)
	}
	rhs := fr.evalExpr(sp.Body, n)
	c.assume(sImp(reach, sEq(lhs.C[0], rhs.C[0])))
}

// windowReads: the distinct terms (select arr j) / (select arr (+ j k)) occurring in body.
func windowReads(body, arr, j string) []string {
	prefix := "(select " + arr + " "
	seen := map[string]bool{}
	var out []string
	for from := 0; ; {
		k := strings.Index(body[from:], prefix)
		if k < 0 {
			break
		}
		start := from + k
		// balanced extent of the select term
		depth, end := 0, -1
		for i := start; i < len(body); i++ {
			if body[i] == '(' {
				depth++
			} else if body[i] == ')' {
				depth--
				if depth == 0 {
					end = i + 1
					break
				}
			}
		}
		if end < 0 {
			break
		}
		t := body[start:end]
		idx := strings.TrimSpace(t[len(prefix) : len(t)-1])
		okIdx := idx == j
		if !okIdx && strings.HasPrefix(idx, "(+ ") && strings.HasSuffix(idx, ")") {
			parts := strings.Fields(idx[3 : len(idx)-1])
			if len(parts) == 2 {
				_, n0 := litInt(parts[0])
				_, n1 := litInt(parts[1])
				okIdx = (parts[0] == j && n1) || (parts[1] == j && n0)
			}
		}
		if okIdx && !seen[t] {
			seen[t] = true
			out = append(out, t)
		}
		from = start + len(prefix)
	}
	return out
}

package main

// Tables: the package-level tables of /repo as the compiled package initialises them.
// They are obtained on every run by compiling /repo's working tree with an injected
// (overlay, never written into /repo) in-package test that dumps them as JSON. The tables are
// constants of every proof; that nothing writes them after initialisation is mode M.

import (
	"encoding/json"
	"fmt"
	"os"
	"os/exec"
	"path/filepath"
	"strings"
)

type NameType struct {
	Name string `json:"name"`
	Type int    `json:"type"`
}

type Tables struct {
	ByteParsers     []string       `json:"byteParsers"`
	WordAcceptTable []int          `json:"wordAcceptTable"`
	VarAcceptTable  []int          `json:"varAcceptTable"`
	GsHexDecodeMap  []int          `json:"gsHexDecodeMap"`
	BlackTags       []string       `json:"blackTags"`
	BlackEvents     []NameType     `json:"blackEvents"`
	Blacks          []NameType     `json:"blacks"`
	SqlKeywords     map[string]int `json:"sqlKeywords"`
}

const dumpTestSrc = `package libinjection

import (
	"encoding/json"
	"os"
	"reflect"
	"runtime"
	"strings"
	"testing"
)

func TestZZVerifDumpTables(t *testing.T) {
	out := os.Getenv("VERIF_DUMP_OUT")
	if out == "" {
		t.Skip()
	}
	type nt struct {
		Name string ` + "`json:\"name\"`" + `
		Type int    ` + "`json:\"type\"`" + `
	}
	d := map[string]interface{}{}
//SECTION byteParsers
	var bp []string
	for _, f := range byteParsers {
		n := runtime.FuncForPC(reflect.ValueOf(f).Pointer()).Name()
		if k := strings.LastIndexByte(n, '.'); k >= 0 {
			n = n[k+1:]
		}
		bp = append(bp, n)
	}
	d["byteParsers"] = bp
//END
	toInts := func(b []byte) []int {
		r := make([]int, len(b))
		for i, x := range b {
			r[i] = int(x)
		}
		return r
	}
	_ = toInts
//SECTION wordAcceptTable
	d["wordAcceptTable"] = toInts(wordAcceptTable)
//END
//SECTION varAcceptTable
	d["varAcceptTable"] = toInts(varAcceptTable)
//END
//SECTION gsHexDecodeMap
	d["gsHexDecodeMap"] = gsHexDecodeMap
//END
//SECTION blackTags
	d["blackTags"] = blackTags
//END
//SECTION blackEvents
	var be []nt
	for _, e := range blackEvents {
		be = append(be, nt{e.name, e.attributeType})
	}
	d["blackEvents"] = be
//END
//SECTION blacks
	var bl []nt
	for _, e := range blacks {
		bl = append(bl, nt{e.name, e.attributeType})
	}
	d["blacks"] = bl
//END
//SECTION sqlKeywords
	kw := map[string]int{}
	for k, v := range sqlKeywords {
		kw[k] = int(v)
	}
	d["sqlKeywords"] = kw
//END
	b, err := json.Marshal(d)
	if err != nil {
		t.Fatal(err)
	}
	if err := os.WriteFile(out, b, 0o644); err != nil {
		t.Fatal(err)
	}
}
`

func goEnv() []string {
	return append(os.Environ(), "GOFLAGS=-mod=mod", "GOPROXY=off", "GOSUMDB=off", "GOTOOLCHAIN=local")
}

// runOverlayTest compiles /repo with extra in-package test files (via -overlay) and runs
// the named test. Nothing is written into repo.
func runOverlayTest(repo string, files map[string]string, run string, env []string, timeoutS int) (string, error) {
	tmp, err := os.MkdirTemp("", "vf-ov-")
	if err != nil {
		return "", err
	}
	defer os.RemoveAll(tmp)
	ov := map[string]map[string]string{"Replace": {}}
	for name, src := range files {
		p := filepath.Join(tmp, name)
		if err := os.WriteFile(p, []byte(src), 0o644); err != nil {
			return "", err
		}
		ov["Replace"][filepath.Join(repo, name)] = p
	}
	ovb, _ := json.Marshal(ov)
	ovp := filepath.Join(tmp, "overlay.json")
	os.WriteFile(ovp, ovb, 0o644)
	cmd := exec.Command("go", "test", "-overlay", ovp, "-vet=off", "-count=1", "-v", fmt.Sprintf("-timeout=%ds", timeoutS), "-run", run, ".")
	cmd.Dir = repo
	cmd.Env = append(goEnv(), env...)
	out, err := cmd.CombinedOutput()
	return string(out), err
}

// dumpSource keeps the sections of the dump test whose package-level table still exists in the
// tree under verification (a change may remove or rename a table; the checks that depend on it
// then report that, the others still run).
func dumpSource(has func(string) bool) string {
	var out []string
	skip := false
	for _, l := range strings.Split(dumpTestSrc, "\n") {
		if strings.HasPrefix(l, "//SECTION ") {
			skip = !has(strings.TrimSpace(strings.TrimPrefix(l, "//SECTION ")))
			continue
		}
		if l == "//END" {
			skip = false
			continue
		}
		if !skip {
			out = append(out, l)
		}
	}
	src := strings.Join(out, "\n")
	if !strings.Contains(src, "runtime.FuncForPC") {
		src = strings.Replace(src, "\t\"reflect\"\n\t\"runtime\"\n\t\"strings\"\n", "", 1)
	}
	return src
}

func loadTables(repo string, has func(string) bool) (*Tables, error) {
	tmp, err := os.MkdirTemp("", "vf-tab-")
	if err != nil {
		return nil, err
	}
	defer os.RemoveAll(tmp)
	outp := filepath.Join(tmp, "tables.json")
	out, err := runOverlayTest(repo, map[string]string{"zz_verif_dump_test.go": dumpSource(has)}, "^TestZZVerifDumpTables$", []string{"VERIF_DUMP_OUT=" + outp}, 120)
	if err != nil {
		return nil, fmt.Errorf("table dump failed: %v\n%s", err, out)
	}
	b, err := os.ReadFile(outp)
	if err != nil {
		return nil, fmt.Errorf("table dump produced no output: %v\n%s", err, out)
	}
	var t Tables
	if err := json.Unmarshal(b, &t); err != nil {
		return nil, err
	}
	return &t, nil
}

func trimPkg(n string) string {
	if k := strings.LastIndexByte(n, '.'); k >= 0 {
		return n[k+1:]
	}
	return n
}

package main

// Mode R: relational (two-run) obligations by self-composition.
//
// The function under verification is executed symbolically twice inside ONE solver context:
// copy A on inputs (pA, HA) and copy B on inputs (pB, HB). Both copies walk the same SSA, so
// every loop header, back edge, call site and library call of copy B has a unique partner in
// copy A (same instruction, same inlining path, same occurrence number). The unary machinery
// is reused unchanged: each copy cuts its loops at the headers under its own (already proved)
// unary invariants and summarises calls by the callee's (already proved) unary contract, and all
// of that is only *assumed* here - the unary obligations are discharged in the other modes.
// What mode R adds is the relation:
//
//	entry      assume  Rel_in(A, B)                          (parameters + their heap footprint)
//	loop head  oblige  reachA /\ reachB ==> RelL(entryA, entryB)
//	           assume  headA /\ headB  ==> RelL(havocA, havocB)
//	back edge  oblige  condA_i <=> condB_i                   (lock step: same iteration count)
//	           oblige  condA_i /\ condB_i ==> RelL(backA_i, backB_i)
//	call       assume  reachA /\ reachB /\ Rel_in(callee) ==> Rel_out(callee)   (callee proved in mode R)
//	library    assume  the relational lemma of the model (e.g. ToUpper of case-equivalent strings)
//	return     oblige  Rel_out(A, B) over the merged return states
//
// Lock step is what makes the head assumption sound: by induction on the iteration number both
// copies are at the header together, in related states, and leave the loop in the same iteration.
// Rel_in / Rel_out / RelL are generated from the types: integers, booleans, references and
// function values equal; bytes equal unless the contract says `rel upeq name`; strings and byte
// slices of equal length and related content (case-equivalent by default, `rel eq name` for exact).
// `rel requires|ensures|invariant` clauses add conditions written with L(e) / R(e).

import (
	"fmt"
	"time"
	"go/types"
	"sort"
	"strings"

	"golang.org/x/tools/go/ssa"
)

type relLoopRec struct {
	fr         *Frame
	li         *LoopInfo
	entry      *State
	entryReach string
	head       *State
	headReach  string
	cells      []*ssa.Alloc
	heapRefs   map[string][]string // "S.f" -> refs written (nil: anywhere)
	heapKeys   []string
	backs      []relBackRec
}

type relBackRec struct {
	st   *State
	cond string
}

type relCallRec struct {
	fr     *Frame
	callee *ssa.Function
	fc     *FuncContract
	reach  string
	args   []Val
	pre    *State
	post   *State
	res    []Val
	dreach string
}

type relExtRec struct {
	fr    *Frame
	name  string
	args  []Val
	res   Val
	reach string
}

type RelRun struct {
	fr     *Frame
	entry  *State
	params []Val
	loops  map[string]*relLoopRec
	calls  map[string]*relCallRec
	exts   map[string]*relExtRec
	maps   map[string]*relExtRec
	seen   map[string]int
}

type Rel struct {
	A, B *RelRun
	cur  *RelRun
	tags []string
	used map[string]bool // relational library lemmas used
	memo   map[string]bool
	memoOn bool
	lemmas, lemmasTried, lemmaMS int
	doneIn map[string]bool
	noAtoms bool
	aligned map[*ssa.BasicBlock]bool
	pending []*Obl
	deny    map[string]bool
	lemmaSeq int
}

func newRelRun() *RelRun {
	return &RelRun{loops: map[string]*relLoopRec{}, calls: map[string]*relCallRec{}, exts: map[string]*relExtRec{}, maps: map[string]*relExtRec{}, seen: map[string]int{}}
}

func (r *Rel) key(fr *Frame, what string) string {
	base := fr.path + "|" + fr.name + "|" + what
	r.cur.seen[base]++
	return fmt.Sprintf("%s#%d", base, r.cur.seen[base])
}

func (r *Rel) inB() bool { return r.cur == r.B }

func sUp(b string) string {
	return "(ite (and (<= 97 " + b + ") (<= " + b + " 122)) (- " + b + " 32) " + b + ")"
}

// ---------------------------------------------------------------- relation on values

// relMode: how a named parameter / local / result / field is related.
func (c *Ctx) relModeOf(fn *ssa.Function, name string) string {
	if fn != nil {
		if fc := c.pr.Cs.Funcs[c.pr.funcName(fn)]; fc != nil {
			if m, ok := fc.RelModes[name]; ok {
				return m
			}
		}
	}
	return ""
}

func (c *Ctx) relStr(a, b Val, mode string) string {
	if mode == "skip" {
		return "true"
	}
	if a.Lit != nil && b.Lit != nil && *a.Lit == *b.Lit {
		return "true"
	}
	// same length, same offset (strings are (array, offset, length) triples and nothing
	// observes the offset, so this loses no pair of runs), related bytes at the same index
	q := c.fresh("rq")
	ea := sSel(a.C[0], q)
	eb := sSel(b.C[0], q)
	var body string
	if mode == "eq" {
		body = sEq(ea, eb)
	} else {
		body = sEq(sUp(ea), sUp(eb))
	}
	rng := "(and (<= " + a.C[1] + " " + q + ") (< " + q + " " + lAdd(a.C[1], a.C[2]) + "))"
	pat := ""
	if c.patternable(a.C[0]) {
		pat += " :pattern ((select " + a.C[0] + " " + q + "))"
	}
	if c.patternable(b.C[0]) && b.C[0] != a.C[0] {
		pat += " :pattern ((select " + b.C[0] + " " + q + "))"
	}
	fa := "(forall ((" + q + " Int)) (! (=> " + rng + " " + body + ")" + pat + "))"
	if pat == "" {
		fa = "(forall ((" + q + " Int)) (=> " + rng + " " + body + "))"
	}
	if a.C[0] == b.C[0] {
		fa = "true"
	}
	exp := sAnd(sEq(a.C[2], b.C[2]), sEq(a.C[1], b.C[1]), fa)
	// The relation is used through an atom RELx(a, b) whose definition (the expansion above) is
	// asserted for exactly the argument tuples that occur. Where two related strings flow
	// through ite-merged heap arrays (a dispatch over 27 lexers) the atom is carried by
	// congruence, and the quantifier is only opened where bytes are actually compared.
	if c.rel != nil && c.rel.noAtoms {
		return exp // under a quantifier over references: the arguments are not ground
	}
	fn := "RELU"
	if mode == "eq" {
		fn = "RELE"
	}
	if !c.ufuns[fn] {
		c.ufuns[fn] = true
		c.emit("(declare-fun " + fn + " ((Array Int Int) Int Int (Array Int Int) Int Int) Bool)")
	}
	atom := "(" + fn + " " + a.C[0] + " " + a.C[1] + " " + a.C[2] + " " + b.C[0] + " " + b.C[1] + " " + b.C[2] + ")"
	c.assumeOnce(sEq(atom, exp))
	return atom
}

func (c *Ctx) relStrBack(a, b Val, mode string) string { return "true" }

// relVal: the relation between two values of the same Go type. assumeSide adds the B-indexed
// copy of quantified string relations.
func (c *Ctx) relVal(a, b Val, mode string, assumeSide bool) string {
	if mode == "skip" {
		return "true"
	}
	if a.K != b.K {
		// e.g. a literal string on one side only: both are KStr anyway; anything else is unrelated
		return "true"
	}
	switch a.K {
	case KInt:
		if mode == "upeq" {
			return sEq(sUp(a.C[0]), sUp(b.C[0]))
		}
		return sEq(a.C[0], b.C[0])
	case KBool:
		return sEq(a.C[0], b.C[0])
	case KRef:
		return sEq(a.C[0], b.C[0])
	case KFunc:
		return sAnd(sEq(a.C[0], b.C[0]), sEq(a.C[1], b.C[1]))
	case KStr:
		m := mode
		if m == "" {
			m = "upeq"
		}
		r := c.relStr(a, b, m)
		if assumeSide {
			r = sAnd(r, c.relStrBack(a, b, m))
		}
		return r
	case KSlice:
		if len(a.C) == 2 && a.ElemT != nil && isByteType(a.ElemT) && a.Glob == "" {
			m := mode
			if m == "" {
				m = "upeq"
			}
			sa := Val{K: KStr, C: []string{a.C[0], "0", a.C[1]}}
			sb := Val{K: KStr, C: []string{b.C[0], "0", b.C[1]}}
			r := c.relStr(sa, sb, m)
			if assumeSide {
				r = sAnd(r, c.relStrBack(sa, sb, m))
			}
			return r
		}
		return "true"
	case KStruct, KTuple:
		var cs []string
		sn := ""
		if a.T != nil {
			sn = c.pr.heapStructOf(a.T)
		}
		for i := range a.Elems {
			if i >= len(b.Elems) {
				break
			}
			fm := ""
			if sn != "" {
				if si := c.pr.Structs[sn]; si != nil && i < len(si.Fields) {
					fm = c.relFieldMode(sn, si.Fields[i].Name())
				}
			}
			cs = append(cs, c.relVal(a.Elems[i], b.Elems[i], fm, assumeSide))
		}
		return sAnd(cs...)
	}
	return "true"
}

func (c *Ctx) relFieldMode(sn, f string) string {
	if m, ok := c.pr.Cs.RelFields[sn+"."+f]; ok {
		return m
	}
	return ""
}

// relObject: every field of the heap struct sn at refA / refB is related (array fields: each element).
func (c *Ctx) relObject(frA, frB *Frame, stA, stB *State, sn, refA, refB string, only string, assumeSide bool) string {
	si := c.pr.Structs[sn]
	if si == nil {
		return "true"
	}
	var cs []string
	for fi, f := range si.Fields {
		if only != "" && only != "*" && f.Name() != only {
			continue
		}
		if arr, ok := f.Type().Underlying().(*types.Array); ok {
			en := c.pr.heapStructOf(arr.Elem())
			for i := int64(0); i < arr.Len(); i++ {
				cs = append(cs, c.relObject(frA, frB, stA, stB, en, lAdd("(* 8 "+refA+")", fmt.Sprint(i)), lAdd("(* 8 "+refB+")", fmt.Sprint(i)), "", assumeSide))
			}
			continue
		}
		m := c.relFieldMode(sn, f.Name())
		if m == "skip" {
			continue
		}
		va := frA.loadFieldNoAssume(stA, sn, fi, refA)
		vb := frB.loadFieldNoAssume(stB, sn, fi, refB)
		memo := strings.Join(flat(va), ",") + "|" + strings.Join(flat(vb), ",")
		if !assumeSide && c.rel.memo[memo] {
			continue // literally the pair of values related by the entry assumption
		}
		if assumeSide && c.rel.memoOn {
			c.rel.memo[memo] = true
		}
		cs = append(cs, c.relVal(va, vb, m, assumeSide))
		if spn, ok := c.pr.Cs.RelFieldSpec[sn+"."+f.Name()]; ok {
			if sp := c.pr.Cs.Specs[spn]; sp != nil && len(sp.Params) == 2 {
				env := &Env{fr: frB, cur: stB, old: stB, vars: map[string]Val{sp.Params[0].Name: va, sp.Params[1].Name: vb}}
				cs = append(cs, frB.evalBool(sp.Body, env, nil))
			} else {
				c.errorf("relfield spec %s: not a two-parameter spec", spn)
			}
		}
	}
	return sAnd(cs...)
}

// relParamsAndFootprint: parameters pairwise, and for every pointer-to-struct parameter the
// object it points to (with its embedded token array).
func (c *Ctx) relParamsAndFootprint(fn *ssa.Function, frA, frB *Frame, argsA, argsB []Val, stA, stB *State, assumeSide bool) string {
	var cs []string
	for i, p := range fn.Params {
		if i >= len(argsA) || i >= len(argsB) {
			break
		}
		m := c.relModeOf(fn, p.Name())
		cs = append(cs, c.relVal(argsA[i], argsB[i], m, assumeSide))
		if argsA[i].K == KRef && argsA[i].SName != "" {
			cs = append(cs, c.relObject(frA, frB, stA, stB, argsA[i].SName, argsA[i].C[0], argsB[i].C[0], "", assumeSide))
		}
	}
	return sAnd(cs...)
}

func (c *Ctx) relClauses(cls []*Clause, envA, envB *Env) string {
	var cs []string
	for _, cl := range cls {
		e := *envB
		e.relL, e.relR = envA, envB
		cs = append(cs, envB.fr.evalBool(cl.E, &e, cl))
	}
	return sAnd(cs...)
}

// relKeeps: which unary clauses of callees / loops are imported as assumptions in mode R. Only
// the structural ones (untagged, or tagged with a safety / well-formedness property) - bounds and
// shapes are what the relation needs; the functional, cost and plain-input clauses only enlarge
// the context. Dropping an assumption is always sound.
func relKeeps(cl *Clause) bool {
	if len(cl.Tags) == 0 {
		return true
	}
	for _, t := range cl.Tags {
		switch t {
		case "C01", "C02", "C16", "C17", "C10", "C11":
			return true
		}
	}
	return false
}

// ---------------------------------------------------------------- loops

func (r *Rel) relLoopState(c *Ctx, a, b *relLoopRec, stA, stB *State, assumeSide bool) string {
	var cs []string
	for _, al := range a.cells {
		ca, cb := a.fr.cells[al], b.fr.cells[al]
		if ca == nil || cb == nil {
			continue
		}
		va, okA := stA.cells[ca]
		vb, okB := stB.cells[cb]
		if !okA || !okB || va.K == KPtr {
			continue
		}
		m := c.relModeOf(a.fr.fn, ca.Name)
		cs = append(cs, c.relVal(va, vb, m, assumeSide))
	}
	for _, sf := range a.heapKeys {
		dot := strings.IndexByte(sf, '.')
		sn, f := sf[:dot], sf[dot+1:]
		ra, rb := a.heapRefs[sf], b.heapRefs[sf]
		if ra != nil && rb != nil && len(ra) == len(rb) {
			for i := range ra {
				cs = append(cs, c.relObject(a.fr, b.fr, stA, stB, sn, ra[i], rb[i], f, assumeSide))
			}
			continue
		}
		q := c.fresh("rr")
		r.noAtoms = true
		body := c.relObject(a.fr, b.fr, stA, stB, sn, q, q, f, assumeSide)
		r.noAtoms = false
		// triggers: any read of one of the field's heap arrays (of either run) at a reference
		pats := ""
		for _, key := range c.heapKeys {
			if !strings.HasPrefix(key, sf+".") {
				continue
			}
			for _, h := range []string{stA.heap[key], stB.heap[key]} {
				if isAtom(h) && c.declared[h] {
					pats += " :pattern ((select " + h + " " + q + "))"
				}
			}
		}
		if pats != "" && strings.Contains(body, q) {
			cs = append(cs, "(forall (("+q+" Int)) (! "+body+pats+"))")
		} else {
			cs = append(cs, "(forall (("+q+" Int)) "+body+")")
		}
	}
	if a.li.lc != nil && len(a.li.lc.RelInvariants) > 0 {
		envA := &Env{fr: a.fr, cur: stA, old: a.fr.entry, useCells: true, vars: map[string]Val{}, loop: a.li}
		envB := &Env{fr: b.fr, cur: stB, old: b.fr.entry, useCells: true, vars: map[string]Val{}, loop: b.li}
		cs = append(cs, c.relClauses(a.li.lc.RelInvariants, envA, envB))
	}
	return sAnd(cs...)
}

func (r *Rel) loopHead(fr *Frame, li *LoopInfo, entry *State, reach string, head *State, cells []*ssa.Alloc, heapRefs map[string][]string) {
	c := fr.c
	k := r.key(fr, fmt.Sprintf("loop%d", li.ordinal))
	li.relKey = k
	rec := &relLoopRec{fr: fr, li: li, entry: entry.clone(), entryReach: reach, head: head.clone(), headReach: reach, cells: cells, heapRefs: heapRefs}
	for sf := range heapRefs {
		rec.heapKeys = append(rec.heapKeys, sf)
	}
	sort.Strings(rec.heapKeys)
	r.cur.loops[k] = rec
	if !r.inB() {
		return
	}
	a := r.A.loops[k]
	if a == nil {
		c.errorf("%s: relational: loop %s has no partner in copy A", fr.name, k)
		return
	}
	lname := fmt.Sprintf("loop%d", li.ordinal)
	both := sAnd(a.entryReach, reach)
	c.oblige(fr.oname("rel/"+lname, "entry"), "rel", r.tags, both, r.relLoopState(c, a, rec, a.entry, rec.entry, false), c.pr.lineOf(li.header.Instrs[0].Pos()), "states of the two runs are related when both enter the loop")
	r.memoOn = true
	hrel := r.relLoopState(c, a, rec, a.head, rec.head, true)
	r.memoOn = false
	c.assume(sImp(both, hrel))
	// vacuity canary: with the relation assumed, both runs can still be at this loop head
	cn := c.oblige(fr.oname("rel/vacuity", lname+"-head"), "canary", r.tags, both, "false", 0, "a pair of related runs at this loop head must exist")
	cn.Canary = true
}

func (r *Rel) backEdge(fr *Frame, li *LoopInfo, st *State, cond string) {
	c := fr.c
	rec := r.cur.loops[li.relKey]
	if rec == nil {
		return
	}
	rec.backs = append(rec.backs, relBackRec{st: st, cond: cond})
	if !r.inB() {
		return
	}
	a := r.A.loops[li.relKey]
	i := len(rec.backs) - 1
	if a == nil || i >= len(a.backs) {
		c.errorf("%s: relational: back edge without partner", fr.name)
		return
	}
	lname := fmt.Sprintf("loop%d", li.ordinal)
	line := 0
	if fr.curBlock != nil {
		for j := len(fr.curBlock.Instrs) - 1; j >= 0; j-- {
			if p := fr.curBlock.Instrs[j].Pos(); p.IsValid() {
				line = c.pr.lineOf(p)
				break
			}
		}
	}
	heads := sAnd(a.headReach, rec.headReach)
	c.oblige(fr.oname("rel/"+lname, "lockstep"), "rel", r.tags, heads, sEq(a.backs[i].cond, cond), line, "both runs take this back edge in the same iterations")
	c.oblige(fr.oname("rel/"+lname, "step"), "rel", r.tags, sAnd(a.backs[i].cond, cond), r.relLoopState(c, a, rec, a.backs[i].st, st, false), line, "the relation between the two runs is preserved by an iteration")
}

// blockLemma: an auxiliary lemma, proved on the spot from the assumptions made so far and only
// then assumed: both runs reach this block under the same condition. Nothing is assumed when the
// proof does not succeed; the lemma only spares later obligations the cross product of paths.
func (r *Rel) blockLemma(fr *Frame, b *ssa.BasicBlock, reachB string) {
	c := fr.c
	ra, ok := r.A.fr.reach[b]
	if !ok || ra == reachB || ra == "true" && reachB == "true" {
		return
	}
	if len(b.Preds) == 1 && len(b.Preds[0].Succs) == 2 && b.Preds[0].Succs[1] == b && b.Preds[0].Succs[0] != b && r.aligned[b.Preds[0].Succs[0]] && r.aligned[b.Preds[0]] {
		// the else-target of a branch whose block and then-target are aligned: follows propositionally
		r.aligned[b] = true
		return
	}
	if *flagVerbose {
		for _, in := range b.Instrs {
			if p := in.Pos(); p.IsValid() {
				fmt.Printf("  block %d line %d\n", b.Index, c.pr.lineOf(p))
				break
			}
		}
	}
	if r.proveAndAssume(c, fmt.Sprintf("block:%d", b.Index), sEq(ra, reachB)) {
		r.aligned[b] = true
	}
}

func (r *Rel) proveAndAssume(c *Ctx, key, goal string) bool {
	if r.proveOnly(c, key, goal) {
		c.assume(goal)
		return true
	}
	return false
}

// proveOnly registers an auxiliary lemma. Lemmas are used optimistically while the obligations
// are generated and are all discharged (in parallel, each against the assumptions that preceded
// it) before the function's obligations are returned; if one is not proved, generation is
// repeated without it (verifyRelational), so that no obligation ever rests on an unproved lemma.
func (r *Rel) proveOnly(c *Ctx, key, goal string) bool {
	r.lemmaSeq++
	if r.deny[key] || r.deny["*"] {
		return false
	}
	r.pending = append(r.pending, &Obl{Name: "lemma/" + key, Kind: "rel", Goal: goal, Prefix: len(c.lines), ctx: c})
	return true
}

func hashStr(s string) string {
	h := uint64(1469598103934665603)
	for i := 0; i < len(s); i++ {
		h ^= uint64(s[i])
		h *= 1099511628211
	}
	return fmt.Sprintf("%x", h)
}

// ---------------------------------------------------------------- calls

func (r *Rel) relProven(c *Ctx, callee *ssa.Function) bool {
	fc := c.pr.Cs.Funcs[c.pr.funcName(callee)]
	return fc != nil && fc.Rel
}

func (r *Rel) call(fr *Frame, callee *ssa.Function, fc *FuncContract, args []Val, pre, post *State, res []Val, reach string, line int) {
	c := fr.c
	k := r.key(fr, "call:"+c.pr.funcName(callee))
	rec := &relCallRec{fr: fr, callee: callee, fc: fc, reach: reach, args: args, pre: pre, post: post.clone(), res: res, dreach: fr.dispatchReach}
	r.cur.calls[k] = rec
	if !r.inB() || !r.relProven(c, callee) {
		return
	}
	a := r.A.calls[k]
	if a == nil {
		c.errorf("%s: relational: call %s has no partner in copy A", fr.name, k)
		return
	}
	in := c.relParamsAndFootprint(callee, a.fr, fr, a.args, args, a.pre, pre, false)
	preA := a.fr.calleeEnv(callee, a.args, a.pre, a.pre)
	preB := fr.calleeEnv(callee, args, pre, pre)
	both := sAnd(a.reach, reach)
	if a.dreach != "" && rec.dreach != "" {
		// one of the targets of a dynamic dispatch: the state is the same for every target, so
		// the footprint part of the precondition is proved once, under the dispatch's own reach
		dboth := sAnd(a.dreach, rec.dreach)
		dk := dboth + "|" + in
		if !r.doneIn[dk] {
			r.doneIn[dk] = true
			c.oblige(fr.oname("rel/dispatch", "requires"), "rel", r.tags, dboth, in, line, "the state handed to the dispatched function is related in the two runs")
		}
		in = c.relClauses(fc.RelRequires, preA, preB)
	} else {
		in = sAnd(in, c.relClauses(fc.RelRequires, preA, preB))
	}
	postA := a.fr.calleeEnv(callee, a.args, a.post, a.pre)
	postA.results = a.res
	postB := fr.calleeEnv(callee, args, rec.post, pre)
	postB.results = res
	out := r.relOut(c, callee, fc, a.fr, fr, postA, postB, a.res, res, true)
	// the callee's relational precondition is an obligation of the caller (as a unary requires
	// is); its relational postcondition is then available without a premise
	if in != "true" {
		c.oblige(fr.oname("rel/call:"+c.pr.funcName(callee), "requires"), "rel", r.tags, both, in, line, "arguments and the state they reach are related in the two runs at this call")
	}
	c.assume(sImp(both, out))
}

// relOut: results pairwise, the modifies set of the contract field by field, rel ensures clauses.
func (r *Rel) relOut(c *Ctx, fn *ssa.Function, fc *FuncContract, frA, frB *Frame, envA, envB *Env, resA, resB []Val, assumeSide bool) string {
	var cs []string
	for i := range resA {
		if i >= len(resB) {
			break
		}
		name := "result"
		if len(resA) > 1 {
			name = fmt.Sprintf("result%d", i)
		}
		m := c.relModeOf(fn, name)
		cs = append(cs, c.relVal(resA[i], resB[i], m, assumeSide))
	}
	if fc != nil {
		for _, mi := range fc.Modifies {
			snA, refsA := frA.modRefs(mi, envA)
			_, refsB := frB.modRefs(mi, envB)
			if snA == "" || len(refsA) != len(refsB) {
				continue
			}
			for i := range refsA {
				cs = append(cs, c.relObject(frA, frB, envA.cur, envB.cur, snA, refsA[i], refsB[i], mi.Field, assumeSide))
			}
		}
		cs = append(cs, c.relClauses(fc.RelEnsures, envA, envB))
	}
	return sAnd(cs...)
}

// dispatch: lemma (proved on the spot) that both runs call the same function value.
func (r *Rel) dispatch(fr *Frame, fv Val, reach string) {
	k := r.key(fr, "dispatch")
	rec := &relExtRec{fr: fr, name: "dispatch", args: []Val{fv}, reach: reach}
	r.cur.exts[k] = rec
	if !r.inB() {
		return
	}
	if a := r.A.exts[k]; a != nil {
		r.proveAndAssume(fr.c, k, sImp(sAnd(a.reach, reach), sAnd(sEq(a.args[0].C[0], fv.C[0]), sEq(a.args[0].C[1], fv.C[1]))))
	}
}

// ---------------------------------------------------------------- library lemmas

func isLetterFreeLit(v Val) bool {
	if v.Lit == nil {
		return false
	}
	for i := 0; i < len(*v.Lit); i++ {
		ch := (*v.Lit)[i]
		if (ch >= 'a' && ch <= 'z') || (ch >= 'A' && ch <= 'Z') {
			return false
		}
	}
	return true
}

// ext: relational lemmas of the library models, stated between partner calls of the two runs.
func (r *Rel) ext(fr *Frame, name string, args []Val, res Val, reach string) {
	c := fr.c
	k := r.key(fr, "ext:"+name)
	rec := &relExtRec{fr: fr, name: name, args: args, res: res, reach: reach}
	r.cur.exts[k] = rec
	if !r.inB() {
		return
	}
	a := r.A.exts[k]
	if a == nil {
		return
	}
	both := sAnd(a.reach, reach)
	switch name {
	case "strings.IndexByte", "bytes.IndexByte", "strings.Index", "strings.Contains":
		// relational contract of a search: if the two haystacks span the same index range and a
		// match starts at an index in one run exactly when it does in the other, the results agree.
		// The premise is an obligation of the caller; the conclusion is then assumed.
		r.used[name+": equal results when matches start at the same indices in both runs"] = true
		sa, sb := a.args[0], args[0]
		var oA, lA, oB, lB string
		if sa.K == KStr {
			oA, lA, oB, lB = sa.C[1], sa.C[2], sb.C[1], sb.C[2]
		} else {
			oA, lA, oB, lB = "0", sa.C[1], "0", sb.C[1]
		}
		j := c.fresh("rj")
		var mA, mB, hi string
		if strings.HasSuffix(name, "IndexByte") {
			mA = sEq(sSel(sa.C[0], j), a.args[1].C[0])
			mB = sEq(sSel(sb.C[0], j), args[1].C[0])
			hi = lAdd(oA, lA)
		} else {
			mA = a.fr.matchAbs(sa, j, a.args[1])
			mB = fr.matchAbs(sb, j, args[1])
			hi = lAdd(lSub(lAdd(oA, lA), a.args[1].C[2]), "1")
			both = sAnd(both) // pattern lengths must agree as well
		}
		prem := sAnd(sEq(oA, oB), sEq(lA, lB), "(forall (("+j+" Int)) (=> (and (<= "+oA+" "+j+") (< "+j+" "+hi+")) (= "+mA+" "+mB+")))")
		if !strings.HasSuffix(name, "IndexByte") {
			prem = sAnd(sEq(a.args[1].C[2], args[1].C[2]), prem)
		}
		// proved on the spot (an auxiliary lemma, like the lock-step lemmas); where the premise
		// does not hold - e.g. a membership test accept.IndexByte(s[i]) - nothing is assumed
		// cheaper sufficient premise first: identical haystacks and identical needles
		var same string
		if sa.K == KStr {
			same = c.relStr(sa, sb, "eq")
		} else {
			same = c.relVal(sa, sb, "eq", false)
		}
		if strings.HasSuffix(name, "IndexByte") {
			same = sAnd(same, sEq(a.args[1].C[0], args[1].C[0]))
		} else {
			same = sAnd(same, c.relStr(a.args[1], args[1], "eq"))
		}
		if r.proveOnly(c, k+":identical", sImp(both, same)) || r.proveOnly(c, k+":same-matches", sImp(both, prem)) {
			c.assume(sImp(both, sEq(a.res.C[0], res.C[0])))
		}
	case "strings.ReplaceAll":
		// removing NUL bytes: NUL is not a letter, so it sits at the same indices in both runs
		r.used[name+"(s, NUL, \"\"): case-equivalent (identical) arguments give case-equivalent (identical) results"] = true
		c.assume(sImp(sAnd(both, c.relVal(a.args[0], args[0], "upeq", false)), c.relVal(a.res, res, "upeq", true)))
		c.assume(sImp(sAnd(both, c.relVal(a.args[0], args[0], "eq", false)), c.relVal(a.res, res, "eq", true)))
	case "strings.TrimLeftFunc":
		// the predicate (r <= 32 || r >= 127) does not distinguish the cases of a letter
		r.used[name+": case-equivalent arguments are trimmed by the same amount"] = true
		c.assume(sImp(sAnd(both, c.relVal(a.args[0], args[0], "upeq", false)), sAnd(sEq(a.res.C[1], res.C[1]), sEq(a.res.C[2], res.C[2]))))
	case "strings.ToUpper", "strings.ToLower":
		// case-equivalent arguments have identical images (ASCII letters fold, every other byte is the same)
		r.used[name+": case-equivalent arguments give identical results"] = true
		c.assume(sImp(c.relVal(a.args[0], args[0], "upeq", false), c.relVal(a.res, res, "eq", true)))
	}
}

func (r *Rel) mapLookup(c *Ctx, glob string, key Val, val string) {
	r.cur.seen["map"]++
	k := fmt.Sprintf("map#%d", r.cur.seen["map"])
	rec := &relExtRec{name: glob, args: []Val{key}, res: intVal(val)}
	r.cur.maps[k] = rec
	if !r.inB() {
		return
	}
	// a map look-up is a function of the key's content: against every look-up of copy A
	r.used["map look-up: equal keys give equal results"] = true
	for _, a := range r.A.maps {
		if a.name != glob {
			continue
		}
		c.assume(sImp(c.relVal(a.args[0], key, "eq", false), sEq(a.res.C[0], val)))
	}
}

// ---------------------------------------------------------------- driver

func (pr *Program) relTagsFor(fn *ssa.Function) []string {
	file := pr.fileOf(fn)
	if strings.HasPrefix(file, "sqli") {
		return []string{"C10"}
	}
	return []string{"C11"}
}

// verifyRelational generates the mode R obligations of one function.
func (pr *Program) verifyRelational(fn *ssa.Function) *Ctx {
	deny := map[string]bool{}
	tried, proved, ms := 0, 0, 0
	start := time.Now()
	for round := 0; ; round++ {
		c := pr.verifyRelationalOnce(fn, deny)
		if c.rel == nil {
			return c
		}
		t0 := time.Now()
		dischargeOnce(c.rel.pending, 10, 5)
		ms += int(time.Since(t0) / time.Millisecond)
		bad := 0
		for _, o := range c.rel.pending {
			if *flagDumpAll != "" && strings.Contains(o.Name, *flagDumpAll) {
				dumpQuery(o, "/tmp/vcdump")
			}
			tried++
			if o.Status == "discharged" {
				proved++
				continue
			}
			bad++
			deny[strings.TrimPrefix(o.Name, "lemma/")] = true
			if *flagVerbose {
				fmt.Printf("  lemma %s not proved (%s): %s\n", o.Name, o.Status, clipStr(o.Goal, 200))
				if *flagDumpAll != "" {
					dumpQuery(o, "/tmp/vcdump")
				}
			}
		}
		if *flagVerbose {
			fmt.Printf("  %s: round %d: %d lemmas, %d not proved\n", pr.funcName(fn), round, len(c.rel.pending), bad)
		}
		if bad == 0 {
			c.rel.lemmasTried, c.rel.lemmas, c.rel.lemmaMS = tried, proved, ms
			return c
		}
		if round >= 12 || time.Since(start) > 25*time.Minute {
			// no fixed point within the budget: fall back to generation without any auxiliary
			// lemma (sound; the obligations are then harder for the solvers)
			deny["*"] = true
			c = pr.verifyRelationalOnce(fn, deny)
			if c.rel != nil {
				c.rel.lemmasTried, c.rel.lemmas, c.rel.lemmaMS = tried, proved, ms
			}
			return c
		}
	}
}

func (pr *Program) verifyRelationalOnce(fn *ssa.Function, deny map[string]bool) (c *Ctx) {
	c = newCtx(pr, fn)
	defer func() {
		if rc := recover(); rc != nil {
			c.errorf("%s: generator panic (mode R): %v", c.topName, rc)
		}
	}()
	fc := pr.Cs.Funcs[pr.funcName(fn)]
	rel := &Rel{A: newRelRun(), B: newRelRun(), tags: pr.relTagsFor(fn), used: map[string]bool{}, memo: map[string]bool{}, doneIn: map[string]bool{}, aligned: map[*ssa.BasicBlock]bool{}, deny: deny}
	c.rel = rel
	runCopy := func(run *RelRun, tag string) {
		rel.cur = run
		c.copyTag = tag
		c.allocCtr = 0
		st := c.initHeap()
		fr := c.newFrame(fn, true, "", nil)
		c.topFrame = fr
		run.fr = fr
		for _, p := range fn.Params {
			v := fr.freshVal(p.Type(), "p"+tag+"_"+p.Name())
			if v.K == KRef {
				c.assume("(and (< 0 " + v.C[0] + ") (< " + v.C[0] + " 1000000))")
				c.nonnil[v.C[0]] = true
			}
			fr.paramVs[p] = v
			fr.params[p.Name()] = v
			run.params = append(run.params, v)
		}
		fr.entry = st.clone()
		run.entry = fr.entry
		if run == rel.B {
			a := rel.A
			rel.memoOn = true
			in := c.relParamsAndFootprint(fn, a.fr, fr, a.params, run.params, a.entry, run.entry, true)
			rel.memoOn = false
			c.assume(in)
			if fc != nil {
				envA := &Env{fr: a.fr, cur: a.entry, old: a.entry, vars: map[string]Val{}, paramsEntry: true}
				envB := &Env{fr: fr, cur: run.entry, old: run.entry, vars: map[string]Val{}, paramsEntry: true}
				c.assume(c.relClauses(fc.RelRequires, envA, envB))
			}
		}
		if fc != nil {
			env := &Env{fr: fr, cur: fr.entry, old: fr.entry, vars: map[string]Val{}, paramsEntry: true}
			for _, rq := range fc.Requires {
				c.assume(fr.evalBool(rq.E, env, rq))
			}
			// opaque specifications stay opaque in mode R: their (quantified) definitions are
			// not needed to relate the runs, and together with the relation's own triggers they
			// form matching loops across the two copies
		}
		fr.run(st, "true")
	}
	runCopy(rel.A, "")
	runCopy(rel.B, "B")
	if c.frameSk == "" {
		c.frameSk = c.declare("frame_sk", "Int")
	}
	// merged return states
	merge := func(fr *Frame) (*State, []Val, string) {
		var ins []predIn
		var reaches []string
		for _, rt := range fr.rets {
			ins = append(ins, predIn{rt.st, rt.reach})
			reaches = append(reaches, rt.reach)
		}
		if len(ins) == 0 {
			return nil, nil, "false"
		}
		merged, _ := fr.mergeStates(ins, "rret")
		var out []Val
		for k := 0; k < fn.Signature.Results().Len(); k++ {
			var vs []Val
			var conds []string
			for _, rt := range fr.rets {
				vs = append(vs, rt.res[k])
				conds = append(conds, rt.reach)
			}
			mt := func(sort string, ts []string) string {
				term := ts[len(ts)-1]
				for i := len(ts) - 2; i >= 0; i-- {
					term = sIte(conds[i], ts[i], term)
				}
				return c.define("rres", sort, term)
			}
			out = append(out, fr.mergeVals(vs, mt))
		}
		return merged, out, sOr(reaches...)
	}
	if len(rel.A.fr.rets) == len(rel.B.fr.rets) {
		for i := range rel.A.fr.rets {
			if ra, rb := rel.A.fr.rets[i].reach, rel.B.fr.rets[i].reach; ra != rb {
				rel.proveAndAssume(c, fmt.Sprintf("return:%d", i), sEq(ra, rb))
			}
		}
	}
	stA, resA, reachA := merge(rel.A.fr)
	stB, resB, reachB := merge(rel.B.fr)
	if stA != nil && stB != nil {
		envA := &Env{fr: rel.A.fr, cur: stA, old: rel.A.entry, vars: map[string]Val{}, results: resA, paramsEntry: true}
		envB := &Env{fr: rel.B.fr, cur: stB, old: rel.B.entry, vars: map[string]Val{}, results: resB, paramsEntry: true}
		both := sAnd(reachA, reachB)
		fr := rel.B.fr
		line := 0
		if fc != nil {
			line = fc.Line
		}
		// results and modified footprint
		var cs []string
		for i := range resA {
			name := "result"
			if len(resA) > 1 {
				name = fmt.Sprintf("result%d", i)
			}
			cs = append(cs, c.relVal(resA[i], resB[i], c.relModeOf(fn, name), false))
		}
		c.oblige(fr.oname("rel/ensures", "results"), "rel", rel.tags, both, sAnd(cs...), line, "results of the two runs are related")
		// the whole footprint of the pointer parameters (not only the declared modifies set)
		fp := "true"
		{
			var fs []string
			for i, p := range fn.Params {
				_ = p
				va, vb := rel.A.params[i], rel.B.params[i]
				if va.K == KRef && va.SName != "" {
					fs = append(fs, c.relObject(rel.A.fr, fr, stA, stB, va.SName, va.C[0], vb.C[0], "", false))
				}
			}
			fp = sAnd(fs...)
		}
		if fc != nil && fc.HasMod {
			// the declared modifies set (everything else is unchanged by the unary frame
			// obligations, hence still related as at entry)
			fp = rel.relOut(c, fn, &FuncContract{Modifies: fc.Modifies}, rel.A.fr, fr, envA, envB, nil, nil, false)
		}
		if fp != "true" {
			c.oblige(fr.oname("rel/ensures", "state"), "rel", rel.tags, both, fp, line, "the objects reachable from the parameters are related after the call")
		}
		if fc != nil {
			for i, en := range fc.RelEnsures {
				c.oblige(fr.oname("rel/ensures", clauseLabel(en, i)), "rel", rel.tags, both, c.relClauses([]*Clause{en}, envA, envB), en.Line, en.Text)
			}
		}
		o := c.oblige(fr.oname("rel/vacuity", "reachable-pair"), "canary", rel.tags, both, "false", 0, "some pair of related runs must exist")
		o.Canary = true
	}
	// keep only the relational obligations: the unary ones belong to the other modes
	var keep []*Obl
	for _, o := range c.obls {
		if o.Kind == "rel" || (o.Canary && strings.Contains(o.Name, "rel/vacuity")) {
			keep = append(keep, o)
		}
	}
	c.obls = keep
	for k := range rel.used {
		c.usedAssumed["relational: "+k] = true
	}
	return c
}

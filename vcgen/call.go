package main

import (
	"fmt"
	"go/token"
	"go/types"
	"strings"

	"golang.org/x/tools/go/ssa"
)

func (fr *Frame) call(x *ssa.Call, st *State, reach string) Val {
	c := fr.c
	com := x.Call
	if b, ok := com.Value.(*ssa.Builtin); ok {
		return fr.builtin(b, x, st, reach)
	}
	var args []Val
	for _, a := range com.Args {
		args = append(args, fr.get(a))
	}
	if callee := com.StaticCallee(); callee != nil {
		if c.pr.inPackage(callee) {
			res := fr.callInPkg(callee, args, st, reach, x.Pos(), "true")
			return tupleOrSingle(res, callee.Signature)
		}
		return fr.external(callee, x, args, st, reach)
	}
	// dynamic call through a function value
	fv := fr.get(com.Value)
	if fv.K != KFunc {
		c.errorf("%s: dynamic call through %v", fr.name, fv.K)
		return Val{K: KInt, C: []string{"0"}}
	}
	if c.rel != nil {
		c.rel.dispatch(fr, fv, reach)
	}
	targets := c.pr.dynTargets(x)
	sig := com.Value.Type().Underlying().(*types.Signature)
	byRecv := sig.Params().Len() == 0
	var guards []string
	for _, t := range targets {
		guards = append(guards, sEq(fv.C[0], fmt.Sprint(c.pr.FuncIDs[t])))
	}
	what := fr.srcText(x.Pos(), isAnyExpr)
	c.oblige(fr.oname("dispatch", what), "dispatch", fr.safetyTags, reach, sOr(guards...), c.pr.lineOf(x.Pos()), "call target is one of the known functions")
	var ins []predIn
	var results [][]Val
	for i, t := range targets {
		g := c.define("disp", "Bool", guards[i])
		sub := st.clone()
		var targs []Val
		if byRecv {
			targs = []Val{{K: KRef, T: t.Params[0].Type(), C: []string{fv.C[1]}, SName: c.pr.heapStructOf(deref(t.Params[0].Type()))}}
		} else {
			targs = args
		}
		fr.dispatchReach = reach
		res := fr.callInPkg(t, targs, sub, sAnd(reach, g), x.Pos(), g)
		fr.dispatchReach = ""
		ins = append(ins, predIn{sub, g})
		results = append(results, res)
	}
	pre := st.clone()
	merged, _ := fr.mergeStates(ins, "disp")
	*st = *merged
	// merge results
	if sig.Results().Len() == 0 {
		return Val{K: KNone}
	}
	var out []Val
	for k := 0; k < sig.Results().Len(); k++ {
		vs := make([]Val, len(results))
		for i := range results {
			vs[i] = results[i][k]
		}
		conds := guards
		mt := func(sort string, ts []string) string {
			same := true
			for _, t := range ts[1:] {
				if t != ts[0] {
					same = false
				}
			}
			if same {
				return ts[0]
			}
			term := ts[len(ts)-1]
			for i := len(ts) - 2; i >= 0; i-- {
				term = sIte(conds[i], ts[i], term)
			}
			return c.define("dres", sort, term)
		}
		out = append(out, fr.mergeVals(vs, mt))
	}
	// restate every callee postcondition over the merged state (saves the solver from
	// reasoning through the ite-merged heap arrays)
	for i, t := range targets {
		fc := c.pr.Cs.Funcs[c.pr.funcName(t)]
		if fc == nil || fc.Inline {
			continue
		}
		var targs []Val
		if byRecv {
			targs = []Val{{K: KRef, T: t.Params[0].Type(), C: []string{fv.C[1]}, SName: c.pr.heapStructOf(deref(t.Params[0].Type()))}}
		} else {
			targs = args
		}
		post := fr.calleeEnv(t, targs, st, pre)
		post.results = out
		for _, en := range fc.Ensures {
			if strings.Contains(en.Text, "local(") {
				continue
			}
			g := fr.evalBool(en.E, post, en)
			c.assume(sImp(sAnd(reach, guards[i]), g))
		}
		for _, en := range fc.Defines {
			g := fr.evalBool(en.E, post, en)
			c.assume(sImp(sAnd(reach, guards[i]), g))
		}
	}
	return tupleOrSingle(out, sig)
}

func tupleOrSingle(res []Val, sig *types.Signature) Val {
	switch len(res) {
	case 0:
		return Val{K: KNone}
	case 1:
		return res[0]
	}
	return Val{K: KTuple, Elems: res}
}

// callInPkg: by contract, or inlined when the callee has no contract (or is marked inline).
func (fr *Frame) callInPkg(callee *ssa.Function, args []Val, st *State, reach string, pos token.Pos, guard string) []Val {
	c := fr.c
	name := c.pr.funcName(callee)
	fc := c.pr.Cs.Funcs[name]
	if fc != nil && !fc.Inline {
		return fr.callByContract(callee, fc, args, st, reach, pos)
	}
	for _, s := range fr.stack {
		if s == name {
			c.errorf("%s: recursive call to %s needs a contract", fr.name, name)
			return fr.freshResults(callee)
		}
	}
	if len(fr.stack) > 12 {
		c.errorf("%s: inline depth exceeded at %s", fr.name, name)
		return fr.freshResults(callee)
	}
	path := fr.path
	if path == "" {
		path = fr.name
	}
	sub := c.newFrame(callee, false, path+"/inl:"+name, fr.stack)
	sub.entry = st.clone()
	for i, p := range callee.Params {
		sub.paramVs[p] = args[i]
		sub.params[p.Name()] = args[i]
	}
	// an inlined (loop-free or separately annotated) callee is straight-line work of constant
	// size: it is not charged, so that splitting out a helper does not change any bound
	sub.run(st, reach)
	fr.curState = st
	// merge returns
	var ins []predIn
	for _, r := range sub.rets {
		ins = append(ins, predIn{r.st, r.reach})
	}
	if len(ins) == 0 {
		return fr.freshResults(callee)
	}
	merged, _ := fr.mergeStates(ins, "ret")
	// drop the callee's cells
	for cell := range merged.cells {
		if _, mine := st.cells[cell]; !mine {
			delete(merged.cells, cell)
		}
	}
	for cell, v := range st.cells {
		if _, ok := merged.cells[cell]; !ok {
			merged.cells[cell] = v
		}
	}
	nres := callee.Signature.Results().Len()
	var out []Val
	for k := 0; k < nres; k++ {
		var vs []Val
		var conds []string
		for _, r := range sub.rets {
			if r.reach == "false" {
				continue
			}
			vs = append(vs, r.res[k])
			conds = append(conds, r.reach)
		}
		mt := func(sort string, ts []string) string {
			same := true
			for _, t := range ts[1:] {
				if t != ts[0] {
					same = false
				}
			}
			if same {
				return ts[0]
			}
			term := ts[len(ts)-1]
			for i := len(ts) - 2; i >= 0; i-- {
				term = sIte(conds[i], ts[i], term)
			}
			return c.define("ires", sort, term)
		}
		out = append(out, fr.mergeVals(vs, mt))
	}
	*st = *merged
	return out
}

func (fr *Frame) freshResults(callee *ssa.Function) []Val {
	var out []Val
	rs := callee.Signature.Results()
	for i := 0; i < rs.Len(); i++ {
		out = append(out, fr.freshVal(rs.At(i).Type(), "res"))
	}
	return out
}

func (fr *Frame) calleeEnv(callee *ssa.Function, args []Val, cur, old *State) *Env {
	env := &Env{fr: fr, cur: cur, old: old, vars: map[string]Val{}, params: map[string]Val{}, calleeFn: callee}
	for i, p := range callee.Params {
		env.params[p.Name()] = args[i]
	}
	return env
}

func (fr *Frame) callByContract(callee *ssa.Function, fc *FuncContract, args []Val, st *State, reach string, pos token.Pos) []Val {
	c := fr.c
	name := c.pr.funcName(callee)
	pre := st.clone()
	env := fr.calleeEnv(callee, args, pre, pre)
	callText := fr.srcText(pos, func(n astNode) bool { return isCallExpr(n) })
	if callText == "" {
		callText = name
	}
	line := c.pr.lineOf(pos)
	// implicit: pointer parameters are non-nil
	for i, p := range callee.Params {
		if args[i].K == KRef {
			t := args[i].C[0]
			if !(strings.HasPrefix(t, "(- ") || isPosLiteral(t) || c.nonnil[t]) {
				c.oblige(fr.oname("call:"+name+"/requires", "nonnil:"+p.Name()), "requires", fr.safetyTags, reach, sNot(sEq(t, "0")), line, callText)
			}
		}
	}
	for i, rq := range fc.Requires {
		g := fr.evalBool(rq.E, env, rq)
		tags := rq.Tags
		if len(tags) == 0 {
			tags = fr.safetyTags
			if c.topFrame != nil {
				tags = c.topFrame.allTags()
			}
		}
		c.oblige(fr.oname("call:"+name+"/requires", clauseLabel(rq, i)), "requires", tags, reach, g, line, callText+" :: "+rq.Text)
	}
	// bounded recursion: rank strictly decreases along calls
	if fc.Rank != nil {
		if fr.topContract() != nil && fr.topContract().Rank != nil {
			calleeRank := fr.evalExpr(fc.Rank, env).C[0]
			top := fr.topFrame()
			callerRank := fr.evalExpr(top.contract.Rank, &Env{fr: top, cur: top.entry, old: top.entry, vars: map[string]Val{}, paramsEntry: true}).C[0]
			c.oblige(fr.oname("call:"+name+"/rank", "decreases"), "rank", fr.safetyTags, reach, "(and (<= 0 "+calleeRank+") (< "+calleeRank+" "+callerRank+"))", line, callText)
		}
	}
	// havoc the modifies set
	fr.havocLog = nil
	for _, mi := range fc.Modifies {
		fr.havocMod(mi, env, st)
	}
	hlog := fr.havocLog
	fr.havocLog = nil
	res := fr.freshResults(callee)
	post := fr.calleeEnv(callee, args, st, pre)
	post.results = res
	{
		delta := c.declare(c.fresh("dcost"), "Int")
		c.assume("(<= 0 " + delta + ")")
		if fc.Cost != nil {
			bound := fr.evalExpr(fc.Cost, post).C[0]
			c.assume(sImp(reach, "(<= "+delta+" "+bound+")"))
		}
		c.tick(st, delta)
	}
	eqs := map[string]string{}
	for _, en := range fc.Ensures {
		if strings.Contains(en.Text, "local(") {
			continue // about the callee's own locals: proved there, not visible to callers
		}
		if c.rel != nil && !relKeeps(en) {
			continue
		}
		g := fr.evalBool(en.E, post, en)
		c.assume(sImp(reach, g))
		collectEqs(g, eqs)
	}
	for _, en := range fc.Defines {
		if c.rel != nil {
			break
		}
		g := fr.evalBool(en.E, post, en)
		c.assume(sImp(reach, g))
	}
	// where a postcondition pins a havocked location to a term (x' == e), store e itself: later
	// reads then resolve syntactically instead of through an equality
	if len(eqs) > 0 && len(hlog) > 0 {
		rebuilt := map[string]string{}
		changed := map[string]bool{}
		for _, h := range hlog {
			base, ok := rebuilt[h.key]
			if !ok {
				base = h.base
			}
			val := h.fresh
			if t, ok := eqs[h.fresh]; ok && !strings.Contains(t, h.fresh) && reach == "true" {
				val = t
				changed[h.key] = true
			} else if t, ok := eqs[h.fresh]; ok && !strings.Contains(t, h.fresh) {
				val = t
				changed[h.key] = true
			}
			rebuilt[h.key] = sStore(base, h.ref, val)
			rebuilt[h.key] = c.define("Heq", "(Array Int "+c.heapSort[h.key]+")", rebuilt[h.key])
		}
		for k, v := range rebuilt {
			if changed[k] {
				st.heap[k] = v
			}
		}
	}
	if c.rel != nil {
		c.rel.call(fr, callee, fc, args, pre, st, res, reach, line)
	}
	return res
}

type havocRec struct{ key, ref, fresh, base string }

// collectEqs gathers top-level conjuncts of the form (= atom term) / (= term atom).
func collectEqs(g string, out map[string]string) {
	for _, cj := range splitGoal(g, 0) {
		if strings.HasPrefix(cj, "(=> ") {
			continue
		}
		if strings.HasPrefix(cj, "(= ") && strings.HasSuffix(cj, ")") {
			parts := splitSexp(cj[3 : len(cj)-1])
			if len(parts) == 2 {
				if isAtom(parts[0]) {
					if _, isNum := litInt(parts[0]); !isNum {
						out[parts[0]] = parts[1]
					}
				}
				if isAtom(parts[1]) {
					if _, isNum := litInt(parts[1]); !isNum {
						if _, dup := out[parts[1]]; !dup {
							out[parts[1]] = parts[0]
						}
					}
				}
			}
		}
	}
}

func (fr *Frame) topFrame() *Frame {
	// the frame of the function under verification: rank obligations compare against it
	return fr.c.topFrame
}

func (fr *Frame) topContract() *FuncContract {
	if fr.c.topFrame == nil {
		return nil
	}
	return fr.c.topFrame.contract
}

// modRefs returns the object refs and struct name a modifies item denotes.
func (fr *Frame) modRefs(mi ModItem, env *Env) (string, []string) {
	base := fr.evalExpr(mi.Base, env)
	if base.K != KRef {
		fr.c.errorf("modifies: base is not a struct reference")
		return "", nil
	}
	if mi.All8 {
		var refs []string
		for i := 0; i < 8; i++ {
			refs = append(refs, lAdd("(* 8 "+base.C[0]+")", fmt.Sprint(i)))
		}
		return "sqliToken", refs
	}
	return base.SName, []string{base.C[0]}
}

func (fr *Frame) havocMod(mi ModItem, env *Env, st *State) {
	c := fr.c
	sn, refs := fr.modRefs(mi, env)
	if sn == "" {
		return
	}
	si := c.pr.Structs[sn]
	for fi, f := range si.Fields {
		if mi.Field != "*" && f.Name() != mi.Field {
			continue
		}
		if _, ok := f.Type().Underlying().(*types.Array); ok {
			continue
		}
		for _, ref := range refs {
			v := fr.freshVal(f.Type(), "mod_"+f.Name())
			comps := flat(v)
			for k := range comps {
				key := heapKey(sn, f.Name(), k)
				fr.havocLog = append(fr.havocLog, havocRec{key: key, ref: ref, fresh: comps[k], base: st.heap[key]})
			}
			fr.storeField(st, sn, fi, ref, v)
		}
	}
}

// ---------------------------------------------------------------- builtins and external models

func (fr *Frame) builtin(b *ssa.Builtin, x *ssa.Call, st *State, reach string) Val {
	c := fr.c
	switch b.Name() {
	case "len":
		v := fr.get(x.Call.Args[0])
		switch v.K {
		case KStr:
			return Val{K: KInt, T: x.Type(), C: []string{v.C[2]}}
		case KSlice:
			return Val{K: KInt, T: x.Type(), C: []string{v.C[len(v.C)-1]}}
		}
	case "append":
		sl := fr.get(x.Call.Args[0])
		el := fr.get(x.Call.Args[1])
		// append(bs, x) in SSA: the second argument is a slice (variadic); for a single
		// element it is a one-element slice built from a local array.
		if sl.K == KSlice && el.K == KSlice {
			c.usedAssumed["append (value semantics on a local slice)"] = true
			c.tick(st, "1")
			n := sl.C[len(sl.C)-1]
			m := el.C[len(el.C)-1]
			nv := fr.freshVal(sl.T, "app")
			nlen := nv.C[len(nv.C)-1]
			c.assume(sEq(nlen, lAdd(n, m)))
			for k := 0; k < len(sl.C)-1; k++ {
				q := c.fresh("qi")
				c.assume("(forall ((" + q + " Int)) (! (=> (and (<= 0 " + q + ") (< " + q + " " + n + ")) (= (select " + nv.C[k] + " " + q + ") (select " + sl.C[k] + " " + q + "))) :pattern ((select " + nv.C[k] + " " + q + "))))")
				q2 := c.fresh("qi")
				c.assume("(forall ((" + q2 + " Int)) (! (=> (and (<= " + n + " " + q2 + ") (< " + q2 + " " + nlen + ")) (= (select " + nv.C[k] + " " + q2 + ") (select " + el.C[k] + " (- " + q2 + " " + n + ")))) :pattern ((select " + nv.C[k] + " " + q2 + "))))")
			}
			nv.ElemT = sl.ElemT
			return nv
		}
	case "ssa:deferstack":
		return Val{K: KInt, T: x.Type(), C: []string{"0"}}
	}
	c.errorf("%s: unsupported builtin %s", fr.name, b.Name())
	return Val{K: KInt, C: []string{"0"}}
}

// quantified helper: forall j in [lo,hi) (absolute index into array A): body(j)
func qAbs(c *Ctx, A, lo, hi string, body func(j string) string) string {
	j := c.fresh("qj")
	inner := "(=> (and (<= " + lo + " " + j + ") (< " + j + " " + hi + ")) " + body(j) + ")"
	if c.patternable(A) {
		return "(forall ((" + j + " Int)) (! " + inner + " :pattern ((select " + A + " " + j + "))))"
	}
	return "(forall ((" + j + " Int)) " + inner + ")"
}

// patternable: explicit patterns are only attached to reads of declared (not macro-defined) arrays,
// and of heap-field reads over such arrays; a define-fun expands into ite terms z3 rejects in patterns.
func (c *Ctx) patternable(A string) bool {
	if isAtom(A) {
		return c.declared[A]
	}
	if strings.HasPrefix(A, "(select ") {
		parts := splitSexp(A[8 : len(A)-1])
		if len(parts) == 2 && isAtom(parts[0]) && c.declared[parts[0]] && c.termPlain(parts[1]) {
			return true
		}
	}
	return false
}

func (c *Ctx) termPlain(t string) bool {
	if isAtom(t) {
		if _, isNum := litInt(t); isNum {
			return true
		}
		return c.declared[t]
	}
	if strings.HasPrefix(t, "(+ ") || strings.HasPrefix(t, "(- ") || strings.HasPrefix(t, "(* ") || strings.HasPrefix(t, "(select ") {
		k := strings.IndexByte(t, ' ')
		for _, p := range splitSexp(t[k+1 : len(t)-1]) {
			if !c.termPlain(p) {
				return false
			}
		}
		return true
	}
	return false
}

func (fr *Frame) external(callee *ssa.Function, x *ssa.Call, args []Val, st *State, reach string) Val {
	c := fr.c
	full := callee.String()
	mk := func(t types.Type, term string) Val { return Val{K: KInt, T: t, C: []string{term}} }
	switch full {
	case "strings.IndexByte", "bytes.IndexByte":
		c.usedAssumed[full+": first occurrence or -1"] = true
		defer func() {
			// cost: the distance scanned
			rv := fr.lastIdx
			var L string
			if args[0].K == KStr {
				L = args[0].C[2]
			} else {
				L = args[0].C[1]
			}
			c.tick(st, "(ite (= "+rv+" (- 1)) (+ "+L+" 1) (+ "+rv+" 2))")
		}()
		s := args[0]
		ch := args[1].C[0]
		var A, O, L string
		if s.K == KStr {
			A, O, L = s.C[0], s.C[1], s.C[2]
		} else {
			A, O, L = s.C[0], "0", s.C[1]
		}
		r := c.declare(c.fresh("idx"), "Int")
		notFound := sAnd(sEq(r, "(- 1)"), qAbs(c, A, O, lAdd(O, L), func(j string) string { return sNot(sEq(sSel(A, j), ch)) }))
		found := sAnd("(<= 0 "+r+")", "(< "+r+" "+L+")", sEq(sSel(A, lAdd(O, r)), ch),
			qAbs(c, A, O, lAdd(O, r), func(j string) string { return sNot(sEq(sSel(A, j), ch)) }))
		c.assume(sOr(notFound, found))
		fr.lastIdx = r
		if c.rel != nil {
			c.rel.ext(fr, full, args, mk(x.Type(), r), reach)
		}
		return mk(x.Type(), r)
	case "strings.Index":
		c.usedAssumed[full+": first occurrence of the substring or -1"] = true
		s, p := args[0], args[1]
		r := c.declare(c.fresh("idx"), "Int")
		// cost: the distance scanned up to the match (or the whole haystack) plus the pattern
		c.tick(st, "(+ (ite (= "+r+" (- 1)) "+s.C[2]+" "+r+") (* 2 "+p.C[2]+") 1)")
		// quantify over the absolute start index j of a candidate match (pattern: (select A j))
		absMatch := func(j string) string { return fr.matchAbs(s, j, p) }
		lastStart := lSub(lAdd(s.C[1], s.C[2]), p.C[2]) // O + len(s) - len(p)
		j1 := c.fresh("qj")
		j2 := c.fresh("qj")
		pat := func(j string) string {
			if c.patternable(s.C[0]) {
				if mp := c.relMultiPattern(s, j, p); mp != "" {
					return mp
				}
				return " :pattern ((select " + s.C[0] + " " + j + "))"
			}
			return ""
		}
		wrap := func(j, body string) string {
			if pt := pat(j); pt != "" {
				return "(forall ((" + j + " Int)) (! " + body + pt + "))"
			}
			return "(forall ((" + j + " Int)) " + body + ")"
		}
		notFound := sAnd(sEq(r, "(- 1)"), wrap(j1, "(=> (and (<= "+s.C[1]+" "+j1+") (<= "+j1+" "+lastStart+")) (not "+absMatch(j1)+"))"))
		found := sAnd("(<= 0 "+r+")", "(<= (+ "+r+" "+p.C[2]+") "+s.C[2]+")", absMatch(lAdd(s.C[1], r)),
			wrap(j2, "(=> (and (<= "+s.C[1]+" "+j2+") (< "+j2+" "+lAdd(s.C[1], r)+")) (not "+absMatch(j2)+"))"))
		c.assume(sOr(notFound, found))
		if c.rel != nil {
			c.rel.ext(fr, full, args, mk(x.Type(), r), reach)
		}
		return mk(x.Type(), r)
	case "strings.Contains":
		c.usedAssumed[full+": existence of the substring"] = true
		s, p := args[0], args[1]
		c.tick(st, lAdd(lAdd(s.C[2], p.C[2]), "1"))
		b := c.declare(c.fresh("has"), "Bool")
		w := c.declare(c.fresh("wit"), "Int")
		lastStart := lSub(lAdd(s.C[1], s.C[2]), p.C[2])
		j1 := c.fresh("qj")
		c.assume(sImp(b, sAnd("(<= "+s.C[1]+" "+w+")", "(<= "+w+" "+lastStart+")", fr.matchAbs(s, w, p))))
		body := "(=> (and (<= " + s.C[1] + " " + j1 + ") (<= " + j1 + " " + lastStart + ")) (not " + fr.matchAbs(s, j1, p) + "))"
		if mp := c.relMultiPattern(s, j1, p); mp != "" && c.patternable(s.C[0]) {
			c.assume(sImp(sNot(b), "(forall (("+j1+" Int)) (! "+body+mp+"))"))
		} else if c.patternable(s.C[0]) {
			c.assume(sImp(sNot(b), "(forall (("+j1+" Int)) (! "+body+" :pattern ((select "+s.C[0]+" "+j1+"))))"))
		} else {
			c.assume(sImp(sNot(b), "(forall (("+j1+" Int)) "+body+")"))
		}
		if c.rel != nil {
			c.rel.ext(fr, full, args, Val{K: KBool, T: x.Type(), C: []string{b}}, reach)
		}
		return Val{K: KBool, T: x.Type(), C: []string{b}}
	case "strings.ToUpper", "strings.ToLower":
		c.usedAssumed[full+": byte-wise ASCII mapping when all bytes < 0x80, unspecified otherwise"] = true
		s := args[0]
		c.tick(st, lAdd(s.C[2], "1"))
		r := fr.freshStr("cased")
		ascii := qAbs(c, s.C[0], s.C[1], lAdd(s.C[1], s.C[2]), func(j string) string { return "(< " + sSel(s.C[0], j) + " 128)" })
		upper := full == "strings.ToUpper"
		c.assume(sEq(r.C[1], "0"))
		q := c.fresh("qi")
		var mapped string
		src := "(select " + s.C[0] + " (+ " + s.C[1] + " " + q + "))"
		if upper {
			mapped = "(ite (and (<= 97 " + src + ") (<= " + src + " 122)) (- " + src + " 32) " + src + ")"
		} else {
			mapped = "(ite (and (<= 65 " + src + ") (<= " + src + " 90)) (+ " + src + " 32) " + src + ")"
		}
		c.assume(sImp(ascii, sAnd(sEq(r.C[2], s.C[2]),
			"(forall (("+q+" Int)) (! (=> (and (<= 0 "+q+") (< "+q+" "+s.C[2]+")) (= (select "+r.C[0]+" "+q+") "+mapped+")) :pattern ((select "+r.C[0]+" "+q+"))))")))
		// always: no lower-case (upper-case) ASCII letter survives
		q2 := c.fresh("qi")
		if upper {
			c.assume("(forall ((" + q2 + " Int)) (! (=> (and (<= 0 " + q2 + ") (< " + q2 + " " + r.C[2] + ")) (not (and (<= 97 (select " + r.C[0] + " " + q2 + ")) (<= (select " + r.C[0] + " " + q2 + ") 122)))) :pattern ((select " + r.C[0] + " " + q2 + "))))")
		} else {
			c.assume("(forall ((" + q2 + " Int)) (! (=> (and (<= 0 " + q2 + ") (< " + q2 + " " + r.C[2] + ")) (not (and (<= 65 (select " + r.C[0] + " " + q2 + ")) (<= (select " + r.C[0] + " " + q2 + ") 90)))) :pattern ((select " + r.C[0] + " " + q2 + "))))")
		}
		// an ASCII first byte is mapped byte-wise whatever follows (runes are mapped in order)
		first := sSel(s.C[0], s.C[1])
		var m0 string
		if upper {
			m0 = "(ite (and (<= 97 " + first + ") (<= " + first + " 122)) (- " + first + " 32) " + first + ")"
		} else {
			m0 = "(ite (and (<= 65 " + first + ") (<= " + first + " 90)) (+ " + first + " 32) " + first + ")"
		}
		c.assume(sImp("(and (> "+s.C[2]+" 0) (< "+first+" 128))", "(and (> "+r.C[2]+" 0) (= (select "+r.C[0]+" 0) "+m0+"))"))
		c.assume(sImp(sEq(s.C[2], "0"), sEq(r.C[2], "0")))
		// case mapping never more than triples the byte length (an invalid byte becomes U+FFFD)
		c.assume("(<= " + r.C[2] + " (* 3 " + s.C[2] + "))")
		// a lone byte >= 0x80 is invalid UTF-8 and is mapped to U+FFFD (EF BF BD)
		c.assume(sImp("(and (= "+s.C[2]+" 1) (>= "+first+" 128))", "(and (= "+r.C[2]+" 3) (= (select "+r.C[0]+" 0) 239) (= (select "+r.C[0]+" 1) 191) (= (select "+r.C[0]+" 2) 189))"))
		// the result is a function of the argument's content
		c.recordCase(full, s, r)
		if c.rel != nil {
			c.rel.ext(fr, full, args, r, reach)
		}
		return r
	case "strings.ReplaceAll":
		c.usedAssumed[full+"(s, \"\\x00\", \"\"): s without NUL bytes (length bound and NUL-freedom only)"] = true
		s := args[0]
		if args[1].Lit == nil || *args[1].Lit != "\x00" || args[2].Lit == nil || *args[2].Lit != "" {
			c.errorf("%s: ReplaceAll with unsupported arguments", fr.name)
		}
		c.tick(st, lAdd(s.C[2], "1"))
		r := fr.freshStr("nonul")
		c.assume(sEq(r.C[1], "0"))
		c.assume("(<= " + r.C[2] + " " + s.C[2] + ")")
		q := c.fresh("qi")
		c.assume("(forall ((" + q + " Int)) (! (=> (and (<= 0 " + q + ") (< " + q + " " + r.C[2] + ")) (not (= (select " + r.C[0] + " " + q + ") 0))) :pattern ((select " + r.C[0] + " " + q + "))))")
		// if s has no NUL the result is s; otherwise it is strictly shorter
		noNul := qAbs(c, s.C[0], s.C[1], lAdd(s.C[1], s.C[2]), func(j string) string { return sNot(sEq(sSel(s.C[0], j), "0")) })
		q2 := c.fresh("qi")
		c.assume(sOr(noNul, "(< "+r.C[2]+" "+s.C[2]+")"))
		// the bytes of the result are bytes of s: in particular ASCII stays ASCII
		asciiIn := qAbs(c, s.C[0], s.C[1], lAdd(s.C[1], s.C[2]), func(j string) string { return "(< " + sSel(s.C[0], j) + " 128)" })
		q3 := c.fresh("qi")
		c.assume(sImp(asciiIn, "(forall (("+q3+" Int)) (! (=> (and (<= 0 "+q3+") (< "+q3+" "+r.C[2]+")) (< (select "+r.C[0]+" "+q3+") 128)) :pattern ((select "+r.C[0]+" "+q3+"))))"))
		c.assume(sImp(noNul, sAnd(sEq(r.C[2], s.C[2]), "(forall (("+q2+" Int)) (! (=> (and (<= 0 "+q2+") (< "+q2+" "+s.C[2]+")) (= (select "+r.C[0]+" "+q2+") (select "+s.C[0]+" (+ "+s.C[1]+" "+q2+")))) :pattern ((select "+r.C[0]+" "+q2+"))))")))
		if c.rel != nil {
			c.rel.ext(fr, full, args, r, reach)
		}
		return r
	case "strings.TrimLeftFunc":
		c.usedAssumed[full+": result is a suffix of the argument"] = true
		s := args[0]
		k := c.declare(c.fresh("trim"), "Int")
		c.tick(st, lAdd(k, "2"))
		c.assume("(and (<= 0 " + k + ") (<= " + k + " " + s.C[2] + "))")
		// predicate r <= 32 || r >= 127: skipped bytes are <=32 or >=127; first kept byte is in 33..126
		c.assume(qAbs(c, s.C[0], s.C[1], lAdd(s.C[1], k), func(j string) string {
			return "(or (<= " + sSel(s.C[0], j) + " 32) (>= " + sSel(s.C[0], j) + " 127))"
		}))
		c.assume(sImp("(< "+k+" "+s.C[2]+")", "(and (< 32 "+sSel(s.C[0], lAdd(s.C[1], k))+") (< "+sSel(s.C[0], lAdd(s.C[1], k))+" 127))"))
		tr := Val{K: KStr, T: x.Type(), C: []string{s.C[0], c.define("to", "Int", lAdd(s.C[1], k)), c.define("tl", "Int", lSub(s.C[2], k))}}
		if c.rel != nil {
			c.rel.ext(fr, full, args, tr, reach)
		}
		return tr
	case "(*strings.Builder).Grow":
		return Val{K: KNone}
	case "(*strings.Builder).WriteByte":
		c.usedAssumed["strings.Builder: append-only byte sequence"] = true
		p := args[0]
		c.tick(st, "1")
		cur := fr.load(p, st, reach, x.Pos())
		nv := fr.freshStr("bld")
		c.assume(sEq(nv.C[1], "0"))
		c.assume(sEq(nv.C[2], lAdd(cur.C[2], "1")))
		q := c.fresh("qi")
		c.assume("(forall ((" + q + " Int)) (! (=> (and (<= 0 " + q + ") (< " + q + " " + cur.C[2] + ")) (= (select " + nv.C[0] + " " + q + ") (select " + cur.C[0] + " (+ " + cur.C[1] + " " + q + ")))) :pattern ((select " + nv.C[0] + " " + q + "))))")
		c.assume(sEq(sSel(nv.C[0], cur.C[2]), args[1].C[0]))
		nv.T = cur.T
		fr.store(p, nv, st, reach, x.Pos())
		return Val{K: KNone}
	case "(*strings.Builder).String":
		p := args[0]
		cur := fr.load(p, st, reach, x.Pos())
		cur.T = types.Typ[types.String]
		return cur
	}
	c.errorf("%s: no model for external function %s", fr.name, full)
	rs := callee.Signature.Results()
	if rs.Len() == 1 {
		return fr.freshVal(rs.At(0).Type(), "ext")
	}
	return Val{K: KNone}
}

// recordCase: ToUpper/ToLower are functions of content: equal-content arguments give equal results.
func (c *Ctx) recordCase(fn string, arg, res Val) {
	for _, prev := range c.caseCalls[fn] {
		same := c.strEq(prev[0], arg)
		c.assume(sImp(same, c.strEq(prev[1], res)))
	}
	if c.caseCalls == nil {
		c.caseCalls = map[string][][2]Val{}
	}
	c.caseCalls[fn] = append(c.caseCalls[fn], [2]Val{arg, res})
}

// relMultiPattern (mode R only): trigger a "no match at j" quantifier on all the bytes of the
// candidate window, so that an instance never creates the term that triggers the next one (with
// the two runs' relation bouncing terms between the copies, the single-term trigger loops).
func (c *Ctx) relMultiPattern(s Val, j string, p Val) string {
	if c.rel == nil {
		return ""
	}
	n := int64(-1)
	if p.Lit != nil {
		n = int64(len(*p.Lit))
	} else if k, ok := litInt(p.C[2]); ok {
		n = k
	}
	if n < 2 || n > 12 {
		return ""
	}
	var ts []string
	for i := int64(0); i < n; i++ {
		ts = append(ts, "(select "+s.C[0]+" "+lAdd(j, fmt.Sprint(i))+")")
	}
	return " :pattern (" + strings.Join(ts, " ") + ")"
}

// matchAbs: the pattern p occurs in s's backing array starting at absolute index j
func (fr *Frame) matchAbs(s Val, j string, p Val) string {
	c := fr.c
	if n, ok := litInt(p.C[2]); ok && p.Lit == nil && n >= 0 && n <= 4 {
		var conj []string
		for i := int64(0); i < n; i++ {
			conj = append(conj, sEq(sSel(s.C[0], lAdd(j, fmt.Sprint(i))), sSel(p.C[0], lAdd(p.C[1], fmt.Sprint(i)))))
		}
		return sAnd(conj...)
	}
	if p.Lit != nil {
		var conj []string
		for i := 0; i < len(*p.Lit); i++ {
			conj = append(conj, sEq(sSel(s.C[0], lAdd(j, fmt.Sprint(i))), fmt.Sprint(int((*p.Lit)[i]))))
		}
		return sAnd(conj...)
	}
	// symbolic-length pattern: quantify over the absolute haystack index so that the inferred
	// trigger is (select A q) (the relative form needs arithmetic matching and was slow)
	q := c.fresh("qm")
	return "(forall ((" + q + " Int)) (! (=> (and (<= " + j + " " + q + ") (< " + q + " (+ " + j + " " + p.C[2] + "))) (= (select " + s.C[0] + " " + q + ") (select " + p.C[0] + " (- (+ " + p.C[1] + " " + q + ") " + j + ")))) :pattern ((select " + s.C[0] + " " + q + "))))"
}

// matchAt: s[k : k+len(p)] == p
func (fr *Frame) matchAt(s Val, k string, p Val) string {
	c := fr.c
	if n, ok := litInt(p.C[2]); ok && p.Lit == nil && n >= 0 && n <= 4 {
		// pattern of small constant length: compare byte by byte
		var conj []string
		for i := int64(0); i < n; i++ {
			conj = append(conj, sEq(sSel(s.C[0], lAdd(lAdd(s.C[1], k), fmt.Sprint(i))), sSel(p.C[0], lAdd(p.C[1], fmt.Sprint(i)))))
		}
		return sAnd(conj...)
	}
	if p.Lit != nil {
		var conj []string
		for i := 0; i < len(*p.Lit); i++ {
			conj = append(conj, sEq(sSel(s.C[0], lAdd(lAdd(s.C[1], k), fmt.Sprint(i))), fmt.Sprint(int((*p.Lit)[i]))))
		}
		return sAnd(conj...)
	}
	q := c.fresh("qm")
	return "(forall ((" + q + " Int)) (=> (and (<= 0 " + q + ") (< " + q + " " + p.C[2] + ")) (= (select " + s.C[0] + " (+ " + s.C[1] + " " + k + " " + q + ")) (select " + p.C[0] + " (+ " + p.C[1] + " " + q + ")))))"
}

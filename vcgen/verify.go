package main

import (
	"bytes"
	"context"
	"fmt"
	"os"
	"os/exec"
	"runtime"
	"sort"
	"strings"
	"sync"
	"time"

	"golang.org/x/tools/go/ssa"
)

func newCtx(pr *Program, fn *ssa.Function) *Ctx {
	return &Ctx{
		pr: pr, top: fn, topName: pr.funcName(fn),
		declared: map[string]bool{}, strLits: map[string]Val{}, occ: map[string]int{},
		heapSort: map[string]string{}, assumed: map[string]bool{}, ufuns: map[string]bool{},
		usedAssumed: map[string]bool{}, nonnil: map[string]bool{},
	}
}

// verifyFunction generates all obligations of one function (body against its own contract).
func (pr *Program) verifyFunction(fn *ssa.Function) (c *Ctx) {
	c = newCtx(pr, fn)
	defer func() {
		if r := recover(); r != nil {
			buf := make([]byte, 4096)
			n := runtime.Stack(buf, false)
			c.errorf("%s: generator panic: %v\n%s", c.topName, r, buf[:n])
		}
	}()
	st := c.initHeap()
	fr := c.newFrame(fn, true, "", nil)
	c.topFrame = fr
	for _, p := range fn.Params {
		v := fr.freshVal(p.Type(), "p_"+p.Name())
		if v.K == KRef {
			c.assume("(and (< 0 " + v.C[0] + ") (< " + v.C[0] + " 1000000))")
			c.nonnil[v.C[0]] = true
		}
		fr.paramVs[p] = v
		fr.params[p.Name()] = v
	}
	fr.entry = st.clone()
	fc := fr.contract
	if fc != nil {
		env := &Env{fr: fr, cur: fr.entry, old: fr.entry, vars: map[string]Val{}, paramsEntry: true}
		for _, rq := range fc.Requires {
			c.assume(fr.evalBool(rq.E, env, rq))
		}
		for _, u := range fc.Unfold {
			fr.unfoldHint(u, env, "true")
		}
		for _, u := range fc.Reveal {
			fr.revealHint(u, env)
		}
	}
	fr.run(st, "true")
	// frame skolem
	c.frameSk = c.declare("frame_sk", "Int")
	var retReach []string
	for ri, r := range fr.rets {
		retReach = append(retReach, r.reach)
		if fc == nil {
			continue
		}
		env := &Env{fr: fr, cur: r.st, old: fr.entry, vars: map[string]Val{}, results: r.res, paramsEntry: true}
		for _, u := range fc.Unfold {
			fr.unfoldHint(u, env, r.reach)
		}
		for _, u := range fc.Reveal {
			fr.revealHint(u, env)
		}
		for i, en := range fc.Ensures {
			g := fr.evalBool(en.E, env, en)
			tags := en.Tags
			if len(tags) == 0 {
				tags = fr.tagsFor(en)
			}
			c.oblige(fr.oname("ensures", clauseLabel(en, i)), "ensures", tags, r.reach, g, en.Line, en.Text)
		}
		if fc.Cost != nil {
			bound := fr.evalExpr(fc.Cost, env).C[0]
			cost := r.st.cost
			if cost == "" {
				cost = "0"
			}
			c.oblige(fr.oname("cost", "bound"), "cost", []string{"C09"}, r.reach, "(<= "+cost+" "+bound+")", fc.Line, "ghost step count is within the declared bound")
		}
		fr.frameObligations(r, ri)
	}
	if len(fr.rets) > 0 {
		o := c.oblige(fr.oname("vacuity", "reachable-return"), "canary", fr.allTags(), sOr(retReach...), "false", 0, "some return must be reachable under the precondition")
		o.Canary = true
	}
	return c
}

func (fr *Frame) allTags() []string {
	set := map[string]bool{}
	for _, t := range fr.safetyTags {
		set[t] = true
	}
	if fc := fr.c.topFrame.contract; fc != nil {
		add := func(cl *Clause) {
			for _, t := range cl.Tags {
				set[t] = true
			}
		}
		for _, cl := range fc.Requires {
			add(cl)
		}
		for _, cl := range fc.Ensures {
			add(cl)
		}
		for _, lc := range fc.Loops {
			for _, cl := range lc.Invariants {
				add(cl)
			}
			if lc.DecClause != nil {
				add(lc.DecClause)
			}
		}
	}
	var out []string
	for t := range set {
		out = append(out, t)
	}
	sort.Strings(out)
	return out
}

func (fr *Frame) frameObligations(r retInfo, ri int) {
	c := fr.c
	fc := fr.contract
	env := &Env{fr: fr, cur: fr.entry, old: fr.entry, vars: map[string]Val{}, paramsEntry: true}
	// allowed refs per "S.field"
	allowed := map[string][]string{}
	for _, mi := range fc.Modifies {
		sn, refs := fr.modRefs(mi, env)
		if sn == "" {
			continue
		}
		for _, f := range c.pr.Structs[sn].Fields {
			if mi.Field == "*" || mi.Field == f.Name() {
				allowed[sn+"."+f.Name()] = append(allowed[sn+"."+f.Name()], refs...)
			}
		}
	}
	sk := c.frameSk
	for _, key := range c.heapKeys {
		fin := r.st.heap[key]
		ini := fr.entry.heap[key]
		if fin == ini {
			continue
		}
		sf := key[:strings.LastIndexByte(key, '.')]
		var ex []string
		for _, ref := range allowed[sf] {
			ex = append(ex, sEq(sk, ref))
		}
		// freshly allocated objects (negative / large refs) are not part of the caller's frame
		ex = append(ex, "(< "+sk+" 0)", "(>= "+sk+" 1000000)")
		goal := sOr(append(ex, sEq(sSel(fin, sk), sSel(ini, sk)))...)
		c.oblige(fr.oname("frame", key), "frame", fr.allTagsWith("C05"), r.reach, goal, fc.Line, "only the modifies clause may change "+key)
	}
}

func (fr *Frame) allTagsWith(extra string) []string {
	ts := fr.allTags()
	for _, t := range ts {
		if t == extra {
			return ts
		}
	}
	return append(ts, extra)
}

// ---------------------------------------------------------------- solvers

type solverSpec struct {
	name string
	args func(timeoutS int) []string
}

// solverSeed is added to the z3 command lines when non-zero (thorough tier: stability under seeds).
var solverSeed = 0

func z3Args(bin string, t int) []string {
	a := []string{bin, fmt.Sprintf("-T:%d", t)}
	if solverSeed != 0 {
		a = append(a, fmt.Sprintf("smt.random_seed=%d", solverSeed), fmt.Sprintf("sat.random_seed=%d", solverSeed))
	}
	return append(a, "-in")
}

var solvers = []solverSpec{
	{"z3-new", func(t int) []string { return z3Args("z3-new", t) }},
	{"cvc5", func(t int) []string {
		return []string{"cvc5", fmt.Sprintf("--tlimit=%d", t*1000), "--lang=smt2", "-"}
	}},
	{"z3", func(t int) []string { return z3Args("z3", t) }},
}

// relSolvers: the portfolio for relational goals (quantifier-heavy: cvc5 and z3 with eager
// instantiation decide in well under a second what default z3 often does not).
var relSolvers = []solverSpec{
	{"cvc5", func(t int) []string {
		return []string{"cvc5", fmt.Sprintf("--tlimit=%d", t*1000), "--lang=smt2", "-"}
	}},
	{"z3-new/eager", func(t int) []string { return append(z3Args("z3-new", t)[:2], "smt.qi.eager_threshold=100", "-in") }},
	{"z3-new", func(t int) []string { return z3Args("z3-new", t) }},
}

// raceSolvers runs the given solvers concurrently and returns the first definitive answer.
func raceSolvers(sps []solverSpec, query string, timeoutS int) (string, string, time.Duration) {
	type ans struct {
		res, name string
	}
	t0 := time.Now()
	ctx, cancel := context.WithTimeout(context.Background(), time.Duration(timeoutS+2)*time.Second)
	defer cancel()
	ch := make(chan ans, len(sps))
	for _, sp := range sps {
		go func(sp solverSpec) {
			args := sp.args(timeoutS)
			cmd := exec.CommandContext(ctx, args[0], args[1:]...)
			cmd.Stdin = strings.NewReader(query)
			var out bytes.Buffer
			cmd.Stdout = &out
			cmd.Stderr = &out
			cmd.Run()
			res := "unknown"
			for _, line := range strings.Split(out.String(), "\n") {
				line = strings.TrimSpace(line)
				if strings.HasPrefix(line, "WARNING") || line == "" {
					continue
				}
				if line == "unsat" || line == "sat" {
					res = line
				}
				break
			}
			ch <- ans{res, sp.name}
		}(sp)
	}
	last := "unknown"
	for range sps {
		a := <-ch
		if a.res == "unsat" || a.res == "sat" {
			return a.res, a.name, time.Since(t0)
		}
	}
	return last, "", time.Since(t0)
}

func runSolver(sp solverSpec, query string, timeoutS int) (string, string, time.Duration) {
	ctx, cancel := context.WithTimeout(context.Background(), time.Duration(timeoutS+2)*time.Second)
	defer cancel()
	args := sp.args(timeoutS)
	cmd := exec.CommandContext(ctx, args[0], args[1:]...)
	cmd.Stdin = strings.NewReader(query)
	var out bytes.Buffer
	cmd.Stdout = &out
	cmd.Stderr = &out
	t0 := time.Now()
	cmd.Run()
	d := time.Since(t0)
	s := strings.TrimSpace(out.String())
	for _, line := range strings.Split(s, "\n") {
		line = strings.TrimSpace(line)
		if strings.HasPrefix(line, "WARNING") || line == "" {
			continue
		}
		switch line {
		case "unsat", "sat", "unknown":
			return line, s, d
		}
		break
	}
	if strings.Contains(s, "timeout") || ctx.Err() != nil {
		return "timeout", s, d
	}
	return "error", s, d
}

func (o *Obl) query(withModel bool) string {
	var b strings.Builder
	b.WriteString("(set-logic ALL)\n")
	for _, l := range o.ctx.lines[:o.Prefix] {
		b.WriteString(l)
		b.WriteByte('\n')
	}
	b.WriteString("(assert (not " + o.Goal + "))\n(check-sat)\n")
	if withModel {
		b.WriteString("(get-model)\n")
	}
	return b.String()
}

// discharge runs the portfolio on one obligation.
func (o *Obl) discharge(timeoutS int) {
	q := o.query(false)
	if len(q) > 4<<20 {
		o.Status = "unknown"
		o.Detail = fmt.Sprintf("VC too large (%d bytes)", len(q))
		return
	}
	var total time.Duration
	var details []string
	sps := solvers
	if (o.Kind == "rel" || o.Retried) && !o.Canary {
		rs := relSolvers
		if o.Kind != "rel" {
			rs = solvers // second chance of a unary goal: the three solvers side by side instead of in turn
		}
		// relational goals: race the three configurations, first definitive answer wins
		res, name, d := raceSolvers(rs, q, timeoutS)
		o.TimeMS = int(d / time.Millisecond)
		o.Solver = name
		switch res {
		case "unsat":
			o.Status = "discharged"
		case "sat":
			o.Status = "failed"
			o.Detail = "sat"
		default:
			o.Status = "unknown"
			o.Detail = "no solver of the portfolio answered within the limit"
		}
		return
	}
	for _, sp := range sps {
		tmo := timeoutS
		if o.Canary && tmo > 2 {
			tmo = 2
		}
		res, raw, d := runSolver(sp, q, tmo)
		total += d
		switch res {
		case "unsat":
			if o.Canary {
				o.Status = "failed"
				o.Detail = "vacuous: the precondition/invariants exclude every execution"
			} else {
				o.Status = "discharged"
			}
			o.Solver = sp.name
			o.TimeMS = int(total / time.Millisecond)
			return
		case "sat":
			if o.Canary {
				o.Status = "discharged"
				o.Solver = sp.name
				o.TimeMS = int(total / time.Millisecond)
				return
			}
			o.Status = "failed"
			o.Solver = sp.name
			o.Detail = "sat"
			o.TimeMS = int(total / time.Millisecond)
			return
		case "error":
			if len(raw) > 300 {
				raw = raw[:300]
			}
			details = append(details, sp.name+": "+raw)
		default:
			details = append(details, sp.name+": "+res)
		}
		if o.Canary {
			// not refuted as vacuous by the first solver: good enough (unknown != unsat)
			o.Status = "discharged"
			o.Solver = sp.name
			o.Detail = "not vacuous (" + res + ")"
			o.TimeMS = int(total / time.Millisecond)
			return
		}
	}
	o.Status = "unknown"
	o.Detail = strings.Join(details, "; ")
	o.TimeMS = int(total / time.Millisecond)
}

// splitParts returns sub-obligations, one per top-level conjunct of the goal's consequent.
func splitParts(o *Obl, forceRel bool) []*Obl {
	if o.Canary || o.ctx == nil {
		return nil
	}
	if o.Kind == "rel" && !*flagSplit && !forceRel {
		// relational goals carry the context of two runs: the fixed cost per query dominates,
		// so they are discharged whole
		return nil
	}
	goals := splitGoal(o.Goal, 0)
	if len(goals) < 2 {
		return nil
	}
	var out []*Obl
	for i, g := range goals {
		out = append(out, &Obl{Name: fmt.Sprintf("%s.%d", o.Name, i+1), Goal: g, Prefix: o.Prefix, ctx: o.ctx, Kind: o.Kind})
	}
	return out
}

// splitGoal turns (=> A (and B (=> C (and D E)))) into [(=> A B), (=> (and A C) D), (=> (and A C) E)].
func splitGoal(g string, depth int) []string {
	if depth > 6 || len(g) > 400000 {
		return []string{g}
	}
	if strings.HasPrefix(g, "(=> ") {
		parts := splitSexp(g[4 : len(g)-1])
		if len(parts) == 2 {
			sub := splitGoal(parts[1], depth+1)
			if len(sub) == 1 && sub[0] == parts[1] {
				return []string{g}
			}
			var out []string
			for _, s := range sub {
				out = append(out, sImp(parts[0], s))
			}
			return out
		}
	}
	if strings.HasPrefix(g, "(and ") {
		var out []string
		for _, c := range splitSexp(g[5 : len(g)-1]) {
			out = append(out, splitGoal(c, depth+1)...)
		}
		return out
	}
	return []string{g}
}

func dischargeAll(obls []*Obl, timeoutS, workers int) {
	// conjunctive goals are discharged conjunct by conjunct (in parallel); the obligation is
	// discharged iff every conjunct is
	var units []*Obl
	parts := map[*Obl][]*Obl{}
	for _, o := range obls {
		if ps := splitParts(o, false); ps != nil {
			parts[o] = ps
			units = append(units, ps...)
		} else {
			units = append(units, o)
		}
	}
	var relWhole, rest []*Obl
	for _, u := range units {
		if u.Kind == "rel" && !u.Canary {
			relWhole = append(relWhole, u)
		} else {
			rest = append(rest, u)
		}
	}
	dischargeUnits(rest, timeoutS, workers)
	// two-run goals: each races three solver processes, so fewer run at a time (the cores are
	// not oversubscribed) and each gets a generous limit; the split pass below is the second chance
	rw, rt := workers*3/8, timeoutS
	if rw < 1 {
		rw = 1
	}
	if rt < 30 {
		rt = 30
	}
	dischargeOnce(relWhole, rt, rw)
	combineParts(parts)
	// relational goals are tried whole first (the two-run context is the fixed cost of every
	// query); the ones left undecided are then split into their conjuncts
	units = nil
	parts = map[*Obl][]*Obl{}
	for _, o := range obls {
		if o.Kind == "rel" && o.Status == "unknown" && !o.Canary {
			if ps := splitParts(o, true); ps != nil {
				parts[o] = ps
				units = append(units, ps...)
			}
		}
	}
	if len(units) > 0 {
		t2 := timeoutS
		if t2 < 30 {
			t2 = 30 // few and large: the margin costs nothing when they are proved
		}
		dischargeUnits(units, t2, rw)
		for o := range parts {
			o.TimeMS = 0
		}
		combineParts(parts)
	}
}

func combineParts(parts map[*Obl][]*Obl) {
	for o, ps := range parts {
		o.Status = "discharged"
		o.Detail = ""
		solvers := map[string]bool{}
		for _, p := range ps {
			o.TimeMS += p.TimeMS
			if p.TimeMS > o.MaxPartMS {
				o.MaxPartMS = p.TimeMS
				o.SlowPart = p.Name[len(o.Name)+1:] + " " + p.Solver
			}
			solvers[p.Solver] = true
			if p.Status != "discharged" {
				if o.Status == "discharged" || p.Status == "failed" {
					o.Status = p.Status
					o.Detail = "conjunct " + p.Name[len(o.Name)+1:] + ": " + p.Detail
					o.failedPart = p
				}
			}
		}
		var sl []string
		for s := range solvers {
			if s != "" {
				sl = append(sl, s)
			}
		}
		sort.Strings(sl)
		o.Solver = strings.Join(sl, "+")
	}
}

var retrying bool

// noRetry: obligations listed as known findings (undecided by construction) are not re-run.
var noRetry map[string]bool

// dischargeOnce: one pass, no second chance (auxiliary lemmas: an undecided lemma is simply not used).
func dischargeOnce(obls []*Obl, timeoutS, workers int) {
	var wg sync.WaitGroup
	ch := make(chan *Obl)
	for w := 0; w < workers; w++ {
		wg.Add(1)
		go func() {
			defer wg.Done()
			for o := range ch {
				o.discharge(timeoutS)
			}
		}()
	}
	for _, o := range obls {
		ch <- o
	}
	close(ch)
	wg.Wait()
}

func dischargeUnits(obls []*Obl, timeoutS, workers int) {
	var wg sync.WaitGroup
	ch := make(chan *Obl)
	for w := 0; w < workers; w++ {
		wg.Add(1)
		go func() {
			defer wg.Done()
			for o := range ch {
				o.discharge(timeoutS)
			}
		}()
	}
	for _, o := range obls {
		ch <- o
	}
	close(ch)
	wg.Wait()
	// Second chance for undecided units (every solver timed out or said unknown): on a loaded
	// or slower machine a query that normally takes a second can exceed the per-query limit,
	// and an undecided obligation must not become an alarm for that reason. They are re-run a
	// few at a time with four times the limit. A refuted ("sat") unit is never re-run.
	var again []*Obl
	for _, o := range obls {
		if o.Status == "unknown" && !strings.HasPrefix(o.Detail, "VC too large") && !noRetry[baseName(o.Name)] {
			again = append(again, o)
		}
	}
	if len(again) == 0 || len(again) > 32 || retrying {
		return
	}
	retrying = true
	w2 := workers / 4
	if w2 < 1 {
		w2 = 1
	}
	for _, o := range again {
		o.Retried = true
	}
	dischargeUnits(again, timeoutS*4, w2)
	retrying = false
}

func hasTag(o *Obl, tag string) bool {
	for _, t := range o.Tags {
		if t == tag {
			return true
		}
	}
	return false
}

func dumpQuery(o *Obl, dir string) string {
	os.MkdirAll(dir, 0o755)
	p := dir + "/" + sanitize(o.Name) + ".smt2"
	os.WriteFile(p, []byte(o.query(true)), 0o644)
	return p
}

package main

import (
	"encoding/json"
	"fmt"
	"os"
	"path/filepath"
	"sort"
	"strconv"
	"strings"
	"time"
)

const verifDir = "/verif"

// outDir is where evidence and replays go (overridden for self-tests on scratch copies).
func outDir() string {
	if *flagOut != "" {
		return *flagOut
	}
	return verifDir
}

type KnownFinding struct {
	Property   string `json:"property"`
	Obligation string `json:"obligation"`
	What       string `json:"what"`
	Witness    string `json:"witness,omitempty"`
}

type KnownFile struct {
	Findings []KnownFinding `json:"findings"`
	Fixed    []string       `json:"fixed"`
}

type Expected struct {
	// per property: contract-level obligations (without #n) that must exist, and the
	// number of obligations seen on the pinned tree
	Named map[string][]string `json:"named"`
	Count map[string]int      `json:"count"`
}

func baseName(n string) string {
	if k := strings.LastIndexByte(n, '#'); k >= 0 {
		return n[:k]
	}
	return n
}

func loadJSON(path string, v interface{}) error {
	b, err := os.ReadFile(path)
	if err != nil {
		return err
	}
	return json.Unmarshal(b, v)
}

// allObligations generates every obligation of the package (all modes).
func (pr *Program) allObligations(props ...string) ([]*Obl, []string, map[string]bool) {
	wantRel, wantUnary := false, false
	for _, p := range props {
		if p == "C10" || p == "C11" {
			wantRel = true
		} else {
			wantUnary = true
		}
	}
	_ = wantUnary // unary clauses tagged C10/C11 (table symmetry, ASCII folding of toUpperCmp, ...) belong to those checks too
	all, errs, assumed := pr.unaryObligations()
	if wantRel {
		a2, e2, as2 := pr.relObligations(props)
		all = append(all, a2...)
		errs = append(errs, e2...)
		for k := range as2 {
			assumed[k] = true
		}
	}
	return all, errs, assumed
}

// relObligations: mode R obligations of every function with a relational contract whose
// property (C10 for sqli*.go, C11 otherwise) is among props.
func (pr *Program) relObligations(props []string) ([]*Obl, []string, map[string]bool) {
	want := map[string]bool{}
	for _, p := range props {
		want[p] = true
	}
	var names []string
	for n, fc := range pr.Cs.Funcs {
		fn := pr.Funcs[n]
		if fn == nil || !fc.Rel {
			continue
		}
		for _, t := range pr.relTagsFor(fn) {
			if want[t] {
				names = append(names, n)
				break
			}
		}
	}
	// largest first: generation proves its lock-step lemmas sequentially
	sort.Slice(names, func(i, j int) bool {
		bi, bj := len(pr.Funcs[names[i]].Blocks), len(pr.Funcs[names[j]].Blocks)
		if bi != bj {
			return bi > bj
		}
		return names[i] < names[j]
	})
	type res struct {
		c *Ctx
		n string
	}
	results := make([]res, len(names))
	sem := make(chan struct{}, 5)
	done := make(chan int)
	for i, n := range names {
		go func(i int, n string) {
			sem <- struct{}{}
			c := pr.verifyRelational(pr.Funcs[n])
			<-sem
			results[i] = res{c, n}
			done <- i
		}(i, n)
	}
	for range names {
		<-done
	}
	var all []*Obl
	var errs []string
	assumed := map[string]bool{}
	for _, r := range results {
		c := r.c
		for k := range c.usedAssumed {
			assumed[k] = true
		}
		if c.rel != nil {
			relLemmaStats.tried += c.rel.lemmasTried
			relLemmaStats.proved += c.rel.lemmas
			relLemmaStats.ms += c.rel.lemmaMS
		}
		if len(c.errs) > 0 {
			o := &Obl{Name: r.n + "/rel/generator/supported#1", Func: r.n, Kind: "generator", Tags: pr.relTagsFor(pr.Funcs[r.n]), Status: "unknown",
				Detail: strings.Join(c.errs, " | "), Text: "the function is inside the verifier's subset (mode R)"}
			all = append(all, o)
			for _, e := range c.errs {
				errs = append(errs, r.n+": "+e)
			}
		}
		for _, o := range c.obls {
			if o.Func == "" {
				o.Func = r.n
			}
		}
		all = append(all, c.obls...)
	}
	sort.SliceStable(all, func(i, j int) bool { return all[i].Name < all[j].Name })
	return all, errs, assumed
}

var relLemmaStats struct{ tried, proved, ms int }

func (pr *Program) unaryObligations() ([]*Obl, []string, map[string]bool) {
	var names []string
	called := map[string]bool{}
	for _, f := range pr.Funcs {
		for _, cal := range pr.callees(f) {
			if pr.inPackage(cal) && cal != f {
				called[pr.funcName(cal)] = true
			}
		}
	}
	for n := range pr.Funcs {
		if initialisers[n] {
			continue
		}
		// a function without a contract that has callers is verified in the context of
		// each call site (inlined there), not stand-alone
		if fc := pr.Cs.Funcs[n]; (fc == nil || fc.Inline) && called[n] {
			continue
		}
		names = append(names, n)
	}
	sort.Strings(names)
	var all []*Obl
	var errs []string
	assumed := map[string]bool{}
	type res struct {
		c *Ctx
		n string
	}
	results := make([]res, len(names))
	sem := make(chan struct{}, 8)
	done := make(chan int)
	for i, n := range names {
		go func(i int, n string) {
			sem <- struct{}{}
			c := pr.verifyFunction(pr.Funcs[n])
			<-sem
			results[i] = res{c, n}
			done <- i
		}(i, n)
	}
	for range names {
		<-done
	}
	for _, r := range results {
		c := r.c
		for k := range c.usedAssumed {
			assumed[k] = true
		}
		if len(c.errs) > 0 {
			tags := c.safetyTagsFor(c.top)
			if c.topFrame != nil {
				tags = c.topFrame.allTags()
			}
			o := &Obl{Name: r.n + "/generator/supported#1", Func: r.n, Kind: "generator", Tags: tags, Status: "unknown",
				Detail: strings.Join(c.errs, " | "), Text: "the function is inside the verifier's subset"}
			all = append(all, o)
			for _, e := range c.errs {
				errs = append(errs, r.n+": "+e)
			}
		}
		all = append(all, c.obls...)
	}
	all = append(all, pr.modeM()...)
	all = append(all, pr.definesObligations()...)
	all = append(all, pr.modeG(filepath.Join(verifDir, "baseline", "tables.json"))...)
	return all, errs, assumed
}

var genLock = make(chan struct{}, 1)

func contractLevel(o *Obl) bool {
	switch o.Kind {
	case "ensures", "invariant-entry", "invariant-step", "decreases", "rank", "table", "purity", "frame", "lemma", "rel":
		return true
	}
	return false
}

// BoundedSpec: a bounded check of one named clause against the real code (labelled bounded,
// never counted among the discharged obligations).
type BoundedSpec struct {
	Name, File, Test, What string
	Quick, Thorough       int
}

var boundedSpecs = map[string][]BoundedSpec{
	"C12": {{Name: "check/lemma/virtual-quote", File: "c12_virtualquote_test.go.txt", Test: "TestZZBoundedVirtualQuote",
		What:  "second sentence of C12 (runs shifted by one byte, outside mode R): reading x inside a quote gives the same folded tokens and fingerprint as reading quote+x as-is, verdicts agree unless the fingerprint is sos or s&s: all non-empty x of up to <bound> symbols from a 14-symbol alphabet x 2 quotes x 2 dialects on the real code",
		Quick: 5, Thorough: 6}},
	"C13": {{Name: "isXSS/lemma/embedding-and-prefix", File: "c13_embedding_test.go.txt", Test: "TestZZBoundedEmbedding",
		What:  "clauses (b) and (c) of C13 (runs of different length, outside mode R): verdict(x, attribute context) = verdict(harmless tag + x, data) for the four embeddings, and a '<'-free prefix never changes the data verdict: all concatenations of up to <bound> of 20 fragments x 4 embeddings x 10 prefixes on the real isXSS",
		Quick: 4, Thorough: 5}},
	"C11": {{Name: "isXSS/lemma/nul-inside-names", File: "c11_nulnames_test.go.txt", Test: "TestZZBoundedNulInNames",
		What:  "second half of C11 (runs of different length, outside mode R): one or two NUL bytes inserted strictly inside a tag-name or attribute-name token never change that context's verdict: all concatenations of up to <bound> of 20 fragments x 5 contexts x every inner position on the real isXSS",
		Quick: 4, Thorough: 5}},
	"C07": {{Name: "next/lemma/token-stream-pin", File: "c07_htmlpin_test.go.txt", Test: "TestZZBoundedHTMLPin",
		What:  "token stream (type, offset, length) of the five start contexts and the five verdicts, for every concatenation of up to <bound> fragments from a 28-piece vocabulary of HTML-significant text, equal the values pinned from the pinned tree in /verif/baseline/htmlpin.gz - a regression pin, not a specification",
		Quick: 4, Thorough: 5}},
	"C06": {{Name: "fold/lemma/rewrite-rules-pin", File: "c06_foldpin_test.go.txt", Test: "TestZZBoundedFoldPin",
		What:  "folding rewrite rules (no contract states them): fingerprint and verdict of every sequence of up to <bound> words from a 30-word vocabulary (every token class, and the words the rules test by name) equal the values pinned from the pinned tree in /verif/baseline/foldpin.gz - a regression pin, not a specification",
		Quick: 4, Thorough: 5}},
	"C14": {{Name: "IsSQLi/lemma/plain-shapes", File: "c14_shapes_test.go.txt", Test: "TestZZBoundedPlainShapes",
		What:  "second clause of C14 (e-mail-like, decimal and punctuated-sentence shapes built from non-keyword words) and a non-vacuity sample of the proved core: all sequences of up to <bound> words/numbers from a 25-item vocabulary, and 8 shapes over all word pairs, on the real IsSQLi",
		Quick: 3, Thorough: 4}},
	"C19": {{Name: "isBlackURL/lemma/all-encodings", File: "c19_encodings_test.go.txt", Test: "TestZZBoundedEncodings",
		What:  "every encoding (literal either case, &#D; &#D &#0..0D; &#xH; &#XH) of up to <bound> simultaneously encoded bytes of each scheme, x leading junk x interleaved NUL/LF, is judged dangerous by the real isBlackURL and IsXSS(<a href=..>)",
		Quick: 1, Thorough: 2}},
}

type boundedResult struct {
	Spec   BoundedSpec
	Bound  int
	OK     bool
	Cases  string
	Output string
}

func (pr *Program) runBounded(prop, tier string) []boundedResult {
	var out []boundedResult
	for _, bs := range boundedSpecs[prop] {
		src, err := os.ReadFile(filepath.Join(verifDir, "bounded", bs.File))
		if err != nil {
			out = append(out, boundedResult{Spec: bs, Output: err.Error()})
			continue
		}
		bound := bs.Quick
		if tier == "thorough" {
			bound = bs.Thorough
		}
		o, _ := runOverlayTest(pr.RepoDir, map[string]string{"zz_verif_bounded_test.go": string(src)}, "^"+bs.Test+"$", []string{fmt.Sprintf("VERIF_BOUND=%d", bound), "VERIF_DIR=" + verifDir}, 900)
		r := boundedResult{Spec: bs, Bound: bound}
		for _, l := range strings.Split(o, "\n") {
			if strings.HasPrefix(l, "BOUNDED-OK") {
				r.OK = true
				r.Cases = strings.TrimSpace(strings.TrimPrefix(l, "BOUNDED-OK"))
			}
			if strings.HasPrefix(l, "BOUNDED-FAIL") {
				r.Output = l
			}
		}
		if !r.OK && r.Output == "" {
			r.Output = clip(o, 1500)
		}
		out = append(out, r)
	}
	return out
}

func cmdCheck(args []string) {
	if len(args) < 2 {
		fmt.Fprintln(os.Stderr, "usage: vcgen check <property> <quick|thorough>")
		os.Exit(2)
	}
	prop, tier := args[0], args[1]
	seed := 0
	if s := os.Getenv("VERIF_SEED"); s != "" {
		seed, _ = strconv.Atoi(s)
	}
	t0 := time.Now()
	timeout := *flagTimeout
	if tier == "thorough" {
		timeout = 60
	}
	pr := setup()
	all, genErrs, assumed := pr.allObligations(prop)
	var sel []*Obl
	for _, o := range all {
		if hasTag(o, prop) {
			sel = append(sel, o)
		}
	}
	var todo []*Obl
	for _, o := range sel {
		if o.Status == "" {
			todo = append(todo, o)
		}
	}
	{
		var kf KnownFile
		loadJSON(filepath.Join(verifDir, "known_findings.json"), &kf)
		noRetry = map[string]bool{}
		for _, f := range kf.Findings {
			noRetry[f.Obligation] = true
		}
	}
	dischargeAll(todo, timeout, *flagWorkers)
	// thorough: every obligation is re-run under two further solver seeds derived from VERIF_SEED.
	// An unsat answer is a proof whatever the seed, so an obligation that a re-run merely fails to
	// decide within the limit stays discharged and is listed in the evidence as seed-sensitive (a
	// robustness metric); only a re-run that REFUTES it (sat) - the solvers disagreeing - is
	// reported. A sample is also cross-checked on cvc5 alone.
	unstable := map[*Obl]string{}
	var seedSensitive []string
	crossChecked, crossAgreed := 0, 0
	if tier == "thorough" {
		for k := 1; k <= 2; k++ {
			solverSeed = seed*7919 + k*104729 + 1
			var again []*Obl
			for _, o := range todo {
				if o.Status == "discharged" && !o.Canary {
					cp := *o
					cp.Status, cp.Solver, cp.TimeMS, cp.Detail = "", "", 0, ""
					again = append(again, &cp)
				}
			}
			dischargeAll(again, timeout, *flagWorkers)
			idx := 0
			for _, o := range todo {
				if o.Status == "discharged" && !o.Canary {
					if again[idx].Status != "discharged" {
						unstable[o] = fmt.Sprintf("seed %d: %s %s", solverSeed, again[idx].Status, again[idx].Detail)
					}
					idx++
				}
			}
		}
		solverSeed = 0
		// cvc5 cross-check on every 7th obligation
		saved := solvers
		solvers = solvers[1:2]
		var cc []*Obl
		for i, o := range todo {
			if i%7 == 0 && o.Status == "discharged" && !o.Canary {
				cp := *o
				cp.Status, cp.Solver, cp.TimeMS, cp.Detail = "", "", 0, ""
				cc = append(cc, &cp)
			}
		}
		dischargeAll(cc, timeout, *flagWorkers)
		for _, o := range cc {
			crossChecked++
			if o.Status == "discharged" {
				crossAgreed++
			}
		}
		solvers = saved
		for o, why := range unstable {
			if strings.Contains(why, ": failed") {
				o.Status = "unknown"
				o.Detail = "solvers disagree under seeds: " + why
			} else {
				seedSensitive = append(seedSensitive, o.Name+" ("+why+")")
			}
		}
		sort.Strings(seedSensitive)
	}

	var known KnownFile
	loadJSON(filepath.Join(verifDir, "known_findings.json"), &known)
	var expected Expected
	loadJSON(filepath.Join(verifDir, "expected_counts.json"), &expected)

	// vacuity / coverage guard
	present := map[string]bool{}
	for _, o := range sel {
		present[baseName(o.Name)] = true
	}
	var missing []string
	for _, n := range expected.Named[prop] {
		if !present[n] {
			missing = append(missing, n)
		}
	}
	for _, n := range missing {
		sel = append(sel, &Obl{Name: n + "#0", Kind: "coverage", Tags: []string{prop}, Status: "unknown",
			Detail: "obligation present on the pinned tree is no longer generated (function or clause disappeared)", Text: "expected obligation exists"})
	}
	if want := expected.Count[prop]; want > 0 && len(sel) < want/2 {
		sel = append(sel, &Obl{Name: "coverage/obligation-count#0", Kind: "coverage", Tags: []string{prop}, Status: "unknown",
			Detail: fmt.Sprintf("%d obligations generated, %d on the pinned tree", len(sel), want), Text: "obligation count"})
	}
	if len(sel) == 0 {
		sel = append(sel, &Obl{Name: "coverage/no-obligations#0", Kind: "coverage", Tags: []string{prop}, Status: "unknown", Detail: "zero obligations generated"})
	}

	discharged := 0
	violations := 0
	knownHits := 0
	bySolver := map[string]int{}
	var solverMS int
	funcs := map[string]bool{}
	var lines []string
	os.MkdirAll(filepath.Join(outDir(), "replays", prop), 0o755)
	for _, o := range sel {
		solverMS += o.TimeMS
		if o.Func != "" {
			funcs[o.Func] = true
		}
		if o.Status == "discharged" {
			discharged++
			bySolver[o.Solver]++
			continue
		}
		// known finding?
		isKnown := false
		for _, kf := range known.Findings {
			if kf.Property == prop && kf.Obligation == baseName(o.Name) {
				isKnown = true
				lines = append(lines, fmt.Sprintf("KNOWN-FINDING: property=%s %s %s", prop, kf.Obligation, kf.What))
				break
			}
		}
		if isKnown {
			knownHits++
			continue
		}
		violations++
		rp, reproduced := pr.writeReplay(prop, o)
		suffix := ""
		if !reproduced {
			suffix = " no-failing-input-found"
		}
		lines = append(lines, fmt.Sprintf("VIOLATION property=%s replay=%s obligation=%q status=%s%s", prop, rp, o.Name, o.Status, suffix))
	}
	// bounded stand-ins
	var boundedEv []map[string]interface{}
	for _, br := range pr.runBounded(prop, tier) {
		boundedEv = append(boundedEv, map[string]interface{}{"clause": br.Spec.Name, "what": br.Spec.What, "bound": br.Bound, "passed": br.OK, "cases": br.Cases, "label": "bounded (not counted as proved)"})
		if !br.OK {
			violations++
			rp := filepath.Join(outDir(), "replays", prop, sanitize(br.Spec.Name)+"_bounded.json")
			rb, _ := json.MarshalIndent(map[string]interface{}{"property": prop, "obligation": br.Spec.Name + " (bounded stand-in)", "output": br.Output, "reproduced_on_real_code": strings.HasPrefix(br.Output, "BOUNDED-FAIL")}, "", " ")
			os.WriteFile(rp, rb, 0o644)
			sfx := ""
			if !strings.HasPrefix(br.Output, "BOUNDED-FAIL") {
				sfx = " no-failing-input-found"
			}
			lines = append(lines, fmt.Sprintf("VIOLATION property=%s replay=%s obligation=%q status=bounded-check-failed%s", prop, rp, br.Spec.Name, sfx))
		}
	}
	sort.Strings(lines)
	seenLine := map[string]bool{}
	for _, l := range lines {
		if !seenLine[l] {
			seenLine[l] = true
			fmt.Println(l)
		}
	}
	var fnames []string
	for f := range funcs {
		fnames = append(fnames, f)
	}
	sort.Strings(fnames)
	var asm []string
	for k := range assumed {
		asm = append(asm, "assumed contract: "+k)
	}
	sort.Strings(asm)
	asm = append(asm,
		"generator: go/packages + go/ssa (x/tools v0.29.0, NaiveForm) produce the SSA of the code go build compiles; the SSA->SMT translation of DESIGN.md section 4 is correct",
		"solvers: an unsat answer of z3 5.1.0 / z3 4.8.12 / cvc5 1.0.3 is correct",
		"integers: int is encoded as mathematical Int with an explicit no-overflow obligation at every + - *; len(x) <= 2^62 for every string and slice",
		"package-level tables are constants after initialisation (re-established on every run by the mode M obligations of C05); their contents are read from the compiled package on this run",
		"callee contracts and base invariants used as assumptions here are discharged under the properties they are tagged with (C01/C02 for untagged ones)",
	)
	if prop == "C10" || prop == "C11" {
		asm = append(asm,
			"mode R (two-run): the unary contracts (loop invariants, callee postconditions) of the functions are imported as assumptions in both runs; they are discharged by the checks of C01/C02/C16 (only clauses tagged with those or untagged are imported)",
			"mode R: strings are related at equal offsets (a string value is an (array, offset, length) triple and no operation observes the offset)",
			"mode R: auxiliary lock-step lemmas (both runs reach a block under the same condition; partner library searches find matches at the same indices) are proved on the spot by the solvers from the assumptions made so far and only then used; an unproved lemma is not assumed",
			"scope of the two-run theorem (contract file, specs relInput / dollarFixed / spFixed / cdataFixed): C10 - inputs of equal length, equal up to ASCII case, identical at letters following a backslash or a single quote or preceding a single quote, identical altogether if '$' occurs, identical on the letters of case-variants of sp_password; C11 - equal up to ASCII case and identical on the letters of case-variants of [CDATA[; the NUL-insertion half of C11 is not covered",
			"mode R: recursion and loops: the relational contract of a callee / the relation at a loop head is used inductively (partial correctness; termination is C01/C02)",
		)
	}
	var samples []map[string]string
	for _, o := range sel {
		if len(samples) >= 3 {
			break
		}
		if o.ctx != nil && o.Kind != "nil" && o.Kind != "overflow" && o.Kind != "canary" {
			g := o.Goal
			if len(g) > 600 {
				g = g[:600] + " …"
			}
			samples = append(samples, map[string]string{"obligation": o.Name, "kind": o.Kind, "source": o.Text, "status": o.Status, "goal_smt": g})
		}
	}
	if len(samples) == 0 {
		for _, o := range sel {
			if len(samples) >= 3 {
				break
			}
			samples = append(samples, map[string]string{"obligation": o.Name, "kind": o.Kind, "source": o.Text, "status": o.Status, "detail": o.Detail})
		}
	}
	type oblRec struct {
		Name   string `json:"name"`
		Kind   string `json:"kind"`
		Status string `json:"status"`
		Solver string `json:"backend,omitempty"`
		MS     int    `json:"ms,omitempty"`
		MaxMS  int    `json:"slowest_conjunct_ms,omitempty"`
		Slow   string `json:"slowest_conjunct,omitempty"`
	}
	var recs []oblRec
	for _, o := range sel {
		recs = append(recs, oblRec{o.Name, o.Kind, o.Status, o.Solver, o.TimeMS, o.MaxPartMS, o.SlowPart})
	}
	wall := time.Since(t0).Seconds()
	ev := map[string]interface{}{
		"property_id": prop,
		"tier":        tier,
		"seed":        seed,
		"level":       "proof",
		"wall_s":      wall,
		"violations":  violations,
		"assumptions": asm,
		"coverage": map[string]interface{}{
			"obligations":              len(sel) - knownHits,
			"discharged":               discharged,
			"known_findings_hit":       knownHits,
			"obligations_including_known_findings": len(sel),
			"checker_cmd":              fmt.Sprintf("/verif/bin/check %s %s", prop, tier),
			"trusted_base":             []string{"go/ssa (x/tools v0.29.0)", "/verif/vcgen SSA->SMT translation", "z3 5.1.0", "z3 4.8.12", "cvc5 1.0.3", "assumed contracts on strings/bytes functions (listed under assumptions)"},
			"functions_under_contract": fnames,
			"discharged_by_backend":    bySolver,
			"solver_time_s":            float64(solverMS) / 1000.0,
			"per_solver_timeout_s":     timeout,
			"samples":                  samples,
			"obligation_list":          recs,
			"generator_errors":         genErrs,
			"bounded":                  boundedEv,
			"unstable_under_seeds":     len(unstable),
			"seed_sensitive_obligations": seedSensitive,
			"mode_R_lemmas":            map[string]int{"tried": relLemmaStats.tried, "proved_and_used": relLemmaStats.proved, "solver_ms": relLemmaStats.ms},
			"cvc5_cross_checked":       crossChecked,
			"cvc5_cross_agreed":        crossAgreed,
		},
	}
	os.MkdirAll(filepath.Join(outDir(), "evidence"), 0o755)
	eb, _ := json.MarshalIndent(ev, "", " ")
	os.WriteFile(filepath.Join(outDir(), "evidence", prop+".json"), eb, 0o644)
	fmt.Printf("property %s tier %s: %d obligations, %d discharged, %d known findings, %d violations, %.1fs\n", prop, tier, len(sel), discharged, knownHits, violations, wall)
	if violations > 0 {
		os.Exit(1)
	}
}

// writeReplay records a failed obligation; returns the path and whether a failing input was
// reproduced on the real code.
func (pr *Program) writeReplay(prop string, o *Obl) (string, bool) {
	dir := filepath.Join(outDir(), "replays", prop)
	os.MkdirAll(dir, 0o755)
	path := filepath.Join(dir, sanitize(o.Name)+".json")
	rec := map[string]interface{}{
		"property":   prop,
		"obligation": o.Name,
		"function":   o.Func,
		"kind":       o.Kind,
		"source":     o.Text,
		"line":       o.Line,
		"status":     o.Status,
		"solver":     o.Solver,
		"detail":     o.Detail,
	}
	reproduced := false
	if o.ctx != nil {
		rec["goal_smt"] = o.Goal
		model, input, ok := modelInput(o)
		rec["solver_output"] = model
		if ok {
			rec["model_input_hex"] = fmt.Sprintf("%x", input)
			rec["model_input"] = fmt.Sprintf("%q", input)
			rep, out := pr.replayAPI(prop, o, input)
			rec["replay_output"] = out
			rec["replay_cmd"] = "go test -overlay <generated> -vet=off -timeout 60s -run TestZZVerifReplay (see /verif/vcgen/replay.go)"
			reproduced = rep
		}
	}
	rec["reproduced_on_real_code"] = reproduced
	b, _ := json.MarshalIndent(rec, "", " ")
	os.WriteFile(path, b, 0o644)
	return path, reproduced
}

func cmdBaseline() {
	pr := setup()
	os.MkdirAll(filepath.Join(verifDir, "baseline"), 0o755)
	b, _ := json.MarshalIndent(pr.Tables, "", " ")
	os.WriteFile(filepath.Join(verifDir, "baseline", "tables.json"), b, 0o644)
	fmt.Println("baseline written")
}

// cmdExpected records the contract-level obligations and counts per property on the current tree.
func cmdExpected(props []string) {
	pr := setup()
	all, _, _ := pr.allObligations(props...)
	exp := Expected{Named: map[string][]string{}, Count: map[string]int{}}
	for _, p := range props {
		seen := map[string]bool{}
		for _, o := range all {
			if !hasTag(o, p) {
				continue
			}
			exp.Count[p]++
			if contractLevel(o) && !seen[baseName(o.Name)] {
				seen[baseName(o.Name)] = true
				exp.Named[p] = append(exp.Named[p], baseName(o.Name))
			}
		}
		sort.Strings(exp.Named[p])
	}
	b, _ := json.MarshalIndent(exp, "", " ")
	os.WriteFile(filepath.Join(verifDir, "expected_counts.json"), b, 0o644)
	fmt.Println("expected_counts.json written")
}

package main

import (
	"bytes"
	"fmt"
	"go/ast"
	"go/printer"
	"go/token"
	"go/types"
	"os"
	"path/filepath"
	"sort"
	"strings"

	"golang.org/x/tools/go/ast/astutil"
	"golang.org/x/tools/go/packages"
	"golang.org/x/tools/go/ssa"
	"golang.org/x/tools/go/ssa/ssautil"
)

// Program is everything loaded from /repo's current working tree.
type Program struct {
	RepoDir string
	Fset    *token.FileSet
	Pkg     *packages.Package
	SSAProg *ssa.Program
	SSAPkg  *ssa.Package
	Funcs   map[string]*ssa.Function // by RelString name, e.g. "(*sqliState).tokenize"
	FuncIDs map[*ssa.Function]int
	IDFuncs map[int]*ssa.Function
	Files   map[string]*ast.File // by base filename
	Structs map[string]*StructInfo
	Cs      *Contracts
	Tables  *Tables
}

type StructInfo struct {
	Name   string
	Named  *types.Named
	St     *types.Struct
	Fields []*types.Var
}

var heapStructNames = []string{"sqliState", "sqliToken", "h5State"}

func loadProgram(repo string) (*Program, error) {
	cfg := &packages.Config{
		Mode:  packages.LoadAllSyntax,
		Dir:   repo,
		Tests: false,
		Env:   append(os.Environ(), "GOFLAGS=-mod=mod", "GOPROXY=off", "GOSUMDB=off", "GOTOOLCHAIN=local"),
	}
	pkgs, err := packages.Load(cfg, ".")
	if err != nil {
		return nil, err
	}
	if len(pkgs) != 1 {
		return nil, fmt.Errorf("expected 1 package, got %d", len(pkgs))
	}
	if len(pkgs[0].Errors) > 0 {
		return nil, fmt.Errorf("package errors: %v", pkgs[0].Errors)
	}
	prog, spkgs := ssautil.AllPackages(pkgs, ssa.InstantiateGenerics|ssa.NaiveForm)
	prog.Build()
	p := &Program{
		RepoDir: repo,
		Fset:    pkgs[0].Fset,
		Pkg:     pkgs[0],
		SSAProg: prog,
		SSAPkg:  spkgs[0],
		Funcs:   map[string]*ssa.Function{},
		FuncIDs: map[*ssa.Function]int{},
		IDFuncs: map[int]*ssa.Function{},
		Files:   map[string]*ast.File{},
		Structs: map[string]*StructInfo{},
	}
	for _, f := range pkgs[0].Syntax {
		p.Files[filepath.Base(p.Fset.Position(f.Pos()).Filename)] = f
	}
	var add func(f *ssa.Function)
	add = func(f *ssa.Function) {
		if f == nil || f.Blocks == nil {
			return
		}
		if f.Synthetic != "" && !strings.Contains(f.Name(), "$") {
			// package init etc.
			if f.Name() != "init" {
				return
			}
		}
		name := f.RelString(p.SSAPkg.Pkg)
		if _, ok := p.Funcs[name]; ok {
			return
		}
		p.Funcs[name] = f
		for _, an := range f.AnonFuncs {
			add(an)
		}
	}
	for _, m := range p.SSAPkg.Members {
		switch m := m.(type) {
		case *ssa.Function:
			add(m)
		case *ssa.Type:
			for _, t := range []types.Type{m.Type(), types.NewPointer(m.Type())} {
				ms := prog.MethodSets.MethodSet(t)
				for i := 0; i < ms.Len(); i++ {
					add(prog.MethodValue(ms.At(i)))
				}
			}
		}
	}
	names := make([]string, 0, len(p.Funcs))
	for n := range p.Funcs {
		names = append(names, n)
	}
	sort.Strings(names)
	for i, n := range names {
		p.FuncIDs[p.Funcs[n]] = i + 1
		p.IDFuncs[i+1] = p.Funcs[n]
	}
	for _, sn := range heapStructNames {
		obj := pkgs[0].Types.Scope().Lookup(sn)
		if obj == nil {
			continue
		}
		named := obj.Type().(*types.Named)
		st := named.Underlying().(*types.Struct)
		si := &StructInfo{Name: sn, Named: named, St: st}
		for i := 0; i < st.NumFields(); i++ {
			si.Fields = append(si.Fields, st.Field(i))
		}
		p.Structs[sn] = si
	}
	return p, nil
}

func (p *Program) funcName(f *ssa.Function) string { return f.RelString(p.SSAPkg.Pkg) }

func (p *Program) inPackage(f *ssa.Function) bool {
	return f != nil && f.Pkg == p.SSAPkg
}

// sourceText returns the source text of the smallest expression enclosing pos.
func (p *Program) exprTextAt(pos token.Pos, want func(ast.Node) bool) string {
	if !pos.IsValid() {
		return ""
	}
	file := p.Files[filepath.Base(p.Fset.Position(pos).Filename)]
	if file == nil {
		return ""
	}
	path, _ := astutil.PathEnclosingInterval(file, pos, pos)
	for _, n := range path {
		if want(n) {
			var buf bytes.Buffer
			printer.Fprint(&buf, p.Fset, n)
			s := buf.String()
			s = strings.Join(strings.Fields(s), " ")
			if len(s) > 80 {
				s = s[:77] + "..."
			}
			return s
		}
	}
	return ""
}

func (p *Program) fileOf(f *ssa.Function) string {
	for f.Parent() != nil {
		f = f.Parent()
	}
	return filepath.Base(p.Fset.Position(f.Pos()).Filename)
}

func (p *Program) lineOf(pos token.Pos) int {
	if !pos.IsValid() {
		return 0
	}
	return p.Fset.Position(pos).Line
}

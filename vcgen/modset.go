package main

// Write-target analysis: which local cells and which heap locations a region of code (a loop
// body, including callees) may write. Heap targets are kept as small symbolic reference
// expressions so that a loop whose writes all go to loop-invariant objects is havocked
// pointwise (the rest of each field array is framed), not wholesale.

import (
	"go/constant"
	"go/types"
	"sort"
	"strings"
	"sync"

	"golang.org/x/tools/go/ssa"
)

type RefExp struct {
	Kind  string // param cell field tok tokany alloc unknown
	Fn    *ssa.Function
	Param int
	Alloc *ssa.Alloc
	Base  *RefExp
	S     string // struct the result refers to
	Field string // field loaded (kind field): Base.S.Field
	Idx   int
}

type ModSet struct {
	cells map[*ssa.Alloc]bool
	heap  map[string][]*RefExp // "S.field" -> targets
}

func newModSet() *ModSet { return &ModSet{cells: map[*ssa.Alloc]bool{}, heap: map[string][]*RefExp{}} }

var unknownRef = &RefExp{Kind: "unknown"}

func deref(t types.Type) types.Type {
	if p, ok := t.Underlying().(*types.Pointer); ok {
		return p.Elem()
	}
	return t
}

func (pr *Program) addAllFields(ms *ModSet, sn string, re *RefExp) {
	for _, f := range pr.Structs[sn].Fields {
		if a, ok := f.Type().Underlying().(*types.Array); ok {
			if en := pr.heapStructOf(a.Elem()); en != "" {
				pr.addAllFields(ms, en, &RefExp{Kind: "tokany", Base: re, S: en})
			}
			continue
		}
		ms.heap[sn+"."+f.Name()] = append(ms.heap[sn+"."+f.Name()], re)
	}
}

type modWalker struct {
	pr    *Program
	ms    *ModSet
	stack map[*ssa.Function]bool
}

// paramSpill: a local cell written exactly once, at entry, with a parameter.
func paramSpill(a *ssa.Alloc) *ssa.Parameter {
	var p *ssa.Parameter
	n := 0
	for _, r := range *a.Referrers() {
		if st, ok := r.(*ssa.Store); ok && st.Addr == a {
			n++
			if pp, ok := st.Val.(*ssa.Parameter); ok {
				p = pp
			}
		}
	}
	if n == 1 {
		return p
	}
	return nil
}

func (w *modWalker) refExp(v ssa.Value, subst map[*ssa.Parameter]*RefExp) *RefExp {
	pr := w.pr
	switch x := v.(type) {
	case *ssa.Parameter:
		if subst != nil {
			if r, ok := subst[x]; ok {
				return r
			}
			return unknownRef
		}
		idx := -1
		for i, p := range x.Parent().Params {
			if p == x {
				idx = i
			}
		}
		return &RefExp{Kind: "param", Fn: x.Parent(), Param: idx, S: pr.heapStructOf(deref(x.Type()))}
	case *ssa.Alloc:
		if sn := pr.heapStructOf(deref(x.Type())); sn != "" {
			return &RefExp{Kind: "alloc", Alloc: x, S: sn}
		}
		return unknownRef
	case *ssa.UnOp:
		switch a := x.X.(type) {
		case *ssa.Alloc:
			if p := paramSpill(a); p != nil {
				return w.refExp(p, subst)
			}
			if subst != nil {
				return unknownRef // callee-local cell
			}
			return &RefExp{Kind: "cell", Alloc: a, S: pr.heapStructOf(deref(deref(a.Type())))}
		case *ssa.FieldAddr:
			base := w.refExp(a.X, subst)
			if base.Kind == "unknown" || base.S == "" {
				return unknownRef
			}
			f := pr.Structs[base.S].Fields[a.Field]
			return &RefExp{Kind: "field", Base: base, Field: f.Name(), S: pr.heapStructOf(deref(f.Type()))}
		}
	case *ssa.IndexAddr:
		if fa, ok := x.X.(*ssa.FieldAddr); ok {
			base := w.refExp(fa.X, subst)
			if base.Kind == "unknown" || base.S == "" {
				return unknownRef
			}
			en := pr.heapStructOf(deref(x.Type()))
			if en == "" {
				return unknownRef
			}
			if k, ok := x.Index.(*ssa.Const); ok && k.Value != nil {
				n, _ := constant.Int64Val(k.Value)
				return &RefExp{Kind: "tok", Base: base, Idx: int(n), S: en}
			}
			return &RefExp{Kind: "tokany", Base: base, S: en}
		}
	}
	return unknownRef
}

func (w *modWalker) storeTarget(addr ssa.Value, subst map[*ssa.Parameter]*RefExp) {
	pr := w.pr
	switch a := addr.(type) {
	case *ssa.Alloc:
		if sn := pr.heapStructOf(deref(a.Type())); sn != "" {
			pr.addAllFields(w.ms, sn, &RefExp{Kind: "alloc", Alloc: a, S: sn})
		} else if subst == nil {
			w.ms.cells[a] = true
		}
	case *ssa.FieldAddr:
		st := deref(a.X.Type())
		if sn := pr.heapStructOf(st); sn != "" {
			re := w.refExp(a.X, subst)
			f := pr.Structs[sn].Fields[a.Field]
			if arr, ok := f.Type().Underlying().(*types.Array); ok {
				if en := pr.heapStructOf(arr.Elem()); en != "" {
					pr.addAllFields(w.ms, en, &RefExp{Kind: "tokany", Base: re, S: en})
				}
			} else {
				w.ms.heap[sn+"."+f.Name()] = append(w.ms.heap[sn+"."+f.Name()], re)
			}
			return
		}
		w.storeTarget(a.X, subst)
	case *ssa.IndexAddr:
		if sn := pr.heapStructOf(deref(a.Type())); sn != "" {
			pr.addAllFields(w.ms, sn, w.refExp(a, subst))
			return
		}
		w.storeTarget(a.X, subst)
	default:
		if sn := pr.heapStructOf(deref(addr.Type())); sn != "" {
			pr.addAllFields(w.ms, sn, w.refExp(addr, subst))
		}
	}
}

// contractRef converts a modifies base expression into a RefExp over the call's arguments.
func (w *modWalker) contractRef(e Expr, callee *ssa.Function, args []*RefExp) *RefExp {
	switch x := e.(type) {
	case *EIdent:
		for i, p := range callee.Params {
			if p.Name() == x.Name {
				return args[i]
			}
		}
	case *EField:
		base := w.contractRef(x.X, callee, args)
		if base.Kind == "unknown" || base.S == "" {
			return unknownRef
		}
		for _, f := range w.pr.Structs[base.S].Fields {
			if f.Name() == x.Name {
				return &RefExp{Kind: "field", Base: base, Field: x.Name, S: w.pr.heapStructOf(deref(f.Type()))}
			}
		}
	}
	return unknownRef
}

func (w *modWalker) contractMods(fc *FuncContract, callee *ssa.Function, args []*RefExp) {
	pr := w.pr
	for _, mi := range fc.Modifies {
		base := w.contractRef(mi.Base, callee, args)
		sn := base.S
		if mi.All8 {
			base = &RefExp{Kind: "tokany", Base: base, S: "sqliToken"}
			sn = "sqliToken"
		}
		if sn == "" {
			// unknown struct: conservatively every struct with such a field
			for s2, si := range pr.Structs {
				for _, f := range si.Fields {
					if mi.Field == "*" || f.Name() == mi.Field {
						if _, isArr := f.Type().Underlying().(*types.Array); !isArr {
							w.ms.heap[s2+"."+f.Name()] = append(w.ms.heap[s2+"."+f.Name()], unknownRef)
						}
					}
				}
			}
			continue
		}
		if mi.Field == "*" {
			pr.addAllFields(w.ms, sn, base)
			continue
		}
		w.ms.heap[sn+"."+mi.Field] = append(w.ms.heap[sn+"."+mi.Field], base)
	}
}

func (w *modWalker) callMods(callee *ssa.Function, args []*RefExp, top bool) {
	pr := w.pr
	if fc := pr.Cs.Funcs[pr.funcName(callee)]; fc != nil && !fc.Inline {
		w.contractMods(fc, callee, args)
		return
	}
	if w.stack[callee] {
		return
	}
	w.stack[callee] = true
	defer delete(w.stack, callee)
	subst := map[*ssa.Parameter]*RefExp{}
	for i, p := range callee.Params {
		if i < len(args) {
			subst[p] = args[i]
		}
	}
	for _, b := range callee.Blocks {
		w.block(b, subst)
	}
}

func (w *modWalker) block(b *ssa.BasicBlock, subst map[*ssa.Parameter]*RefExp) {
	pr := w.pr
	for _, in := range b.Instrs {
		switch x := in.(type) {
		case *ssa.Store:
			w.storeTarget(x.Addr, subst)
		case *ssa.Call:
			var args []*RefExp
			for _, a := range x.Call.Args {
				if pr.heapStructOf(deref(a.Type())) != "" {
					args = append(args, w.refExp(a, subst))
				} else {
					args = append(args, unknownRef)
				}
			}
			if callee := x.Call.StaticCallee(); callee != nil {
				if pr.inPackage(callee) {
					w.callMods(callee, args, false)
				} else if callee.Pkg != nil && callee.Pkg.Pkg.Path() == "strings" && callee.Signature.Recv() != nil {
					if len(x.Call.Args) > 0 {
						w.storeTarget(x.Call.Args[0], subst)
					}
				}
			} else if _, isB := x.Call.Value.(*ssa.Builtin); !isB {
				sig := x.Call.Value.Type().Underlying().(*types.Signature)
				for _, t := range pr.dynTargets(x) {
					targs := args
					if sig.Params().Len() == 0 {
						// bound receiver: unknown object statically
						targs = []*RefExp{unknownRef}
						if uo, ok := x.Call.Value.(*ssa.UnOp); ok {
							if fa, ok := uo.X.(*ssa.FieldAddr); ok {
								// h.state(): the receiver is (by wfH) the object itself
								targs = []*RefExp{w.refExp(fa.X, subst)}
							}
						}
					}
					w.callMods(t, targs, false)
				}
			}
		}
	}
}

func (pr *Program) dynTargets(call *ssa.Call) []*ssa.Function {
	sig := call.Call.Value.Type().Underlying().(*types.Signature)
	var out []*ssa.Function
	if sig.Params().Len() == 1 {
		seen := map[string]bool{}
		for _, n := range pr.Tables.ByteParsers {
			if !seen[n] {
				seen[n] = true
				if f := pr.Funcs[n]; f != nil {
					out = append(out, f)
				}
			}
		}
	} else {
		out = append(out, pr.closureTargets()...)
	}
	sort.Slice(out, func(i, j int) bool { return pr.FuncIDs[out[i]] < pr.FuncIDs[out[j]] })
	return out
}

var closureTargetsMemo []*ssa.Function
var closureOnce sync.Once

func (pr *Program) closureTargets() []*ssa.Function {
	closureOnce.Do(func() { pr.computeClosureTargets() })
	return closureTargetsMemo
}

func (pr *Program) computeClosureTargets() {
	seen := map[*ssa.Function]bool{}
	for _, f := range pr.Funcs {
		for _, b := range f.Blocks {
			for _, in := range b.Instrs {
				if mc, ok := in.(*ssa.MakeClosure); ok {
					if t := pr.boundTarget(mc.Fn.(*ssa.Function)); t != nil && len(mc.Bindings) == 1 {
						if t.Signature.Params().Len() == 0 {
							seen[t] = true
						}
					}
				}
			}
		}
	}
	for f := range seen {
		closureTargetsMemo = append(closureTargetsMemo, f)
	}
	sort.Slice(closureTargetsMemo, func(i, j int) bool {
		return pr.FuncIDs[closureTargetsMemo[i]] < pr.FuncIDs[closureTargetsMemo[j]]
	})
}

// boundTarget returns the method a bound-method wrapper forwards to (or f itself).
func (pr *Program) boundTarget(f *ssa.Function) *ssa.Function {
	if !strings.HasSuffix(f.Name(), "$bound") {
		return f
	}
	for _, b := range f.Blocks {
		for _, in := range b.Instrs {
			if c, ok := in.(*ssa.Call); ok {
				if t := c.Call.StaticCallee(); t != nil {
					return t
				}
			}
		}
	}
	return nil
}

func (fr *Frame) loopMods(li *LoopInfo) *ModSet {
	w := &modWalker{pr: fr.c.pr, ms: newModSet(), stack: map[*ssa.Function]bool{fr.fn: true}}
	var subst map[*ssa.Parameter]*RefExp
	if !fr.top {
		// inlined instance: parameters are opaque here
		subst = nil
	}
	// deterministic order (block index): the order of the write targets fixes the order of the
	// havocked references, which mode R pairs position by position between the two runs
	var blocks []*ssa.BasicBlock
	for b := range li.blocks {
		blocks = append(blocks, b)
	}
	sort.Slice(blocks, func(i, j int) bool { return blocks[i].Index < blocks[j].Index })
	for _, b := range blocks {
		w.block(b, subst)
	}
	for b := range li.blocks {
		for _, in := range b.Instrs {
			if a, ok := in.(*ssa.Alloc); ok {
				delete(w.ms.cells, a)
			}
		}
	}
	return w.ms
}

// stableRefs evaluates a write target at a loop header if it does not depend on anything the
// loop writes; ok=false otherwise.
func (fr *Frame) stableRefs(re *RefExp, ms *ModSet, st *State) ([]string, bool) {
	switch re.Kind {
	case "param":
		if re.Fn != fr.fn || re.Param < 0 {
			return nil, false
		}
		return []string{fr.paramVs[fr.fn.Params[re.Param]].C[0]}, true
	case "cell":
		if ms.cells[re.Alloc] {
			return nil, false
		}
		cell := fr.cells[re.Alloc]
		if cell == nil {
			return nil, false
		}
		v, ok := st.cells[cell]
		if !ok || v.K != KRef {
			return nil, false
		}
		return []string{v.C[0]}, true
	case "alloc":
		v, ok := fr.vals[re.Alloc]
		if !ok || v.K != KRef {
			return nil, false
		}
		return []string{v.C[0]}, true
	case "field":
		if _, written := ms.heap[re.Base.S+"."+re.Field]; written {
			// s.current is re-pointed inside fold's loops, but it always designates one of the
			// eight window slots: curOK is a conjunct of wfS, which every callee that writes
			// through s.current (tokenize and the lexers) requires at the call. The write set is
			// therefore over-approximated by the eight slots.
			if re.Base.S == "sqliState" && re.Field == "current" {
				return fr.stableRefs(&RefExp{Kind: "tokany", Base: re.Base, S: "sqliToken"}, ms, st)
			}
			return nil, false
		}
		bs, ok := fr.stableRefs(re.Base, ms, st)
		if !ok || len(bs) != 1 {
			return nil, false
		}
		return []string{sSel(st.heap[heapKey(re.Base.S, re.Field, 0)], bs[0])}, true
	case "tok":
		bs, ok := fr.stableRefs(re.Base, ms, st)
		if !ok || len(bs) != 1 {
			return nil, false
		}
		return []string{lAdd("(* 8 "+bs[0]+")", sNum(int64(re.Idx)))}, true
	case "tokany":
		bs, ok := fr.stableRefs(re.Base, ms, st)
		if !ok || len(bs) != 1 {
			return nil, false
		}
		var out []string
		for i := 0; i < 8; i++ {
			out = append(out, lAdd("(* 8 "+bs[0]+")", sNum(int64(i))))
		}
		return out, true
	}
	return nil, false
}
